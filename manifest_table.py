# edited by hand; tools_gen_manifest.py turns it into MANIFEST.json
ENGINES = [
    {"name": "SimLoop", "path": "sim/loop.py", "serves_properties": ["C10"], "kind_free_text": "virtual-time asyncio event loop (BaseEventLoop subclass), seeded timer tie-breaks and executor latency, FIFO call_soon kept"},
    {"name": "SimASGI", "path": "sim/asgi_peer.py", "serves_properties": ["C10"], "kind_free_text": "scripted ASGI server peer (receive/send) with protocol monitor, back-pressure, disconnect and send-failure faults, zero-copy flavour"},
    {"name": "SimWSGI", "path": "sim/wsgi_peer.py", "serves_properties": ["C10"], "kind_free_text": "WSGI server peer: wsgi.input with seeded short reads, PEP 3333 monitor, early close"},
    {"name": "Tape+driver", "path": "sim/main.py", "serves_properties": ["C10"], "kind_free_text": "one-integer choice-sequence tape, 16-process seed sweep, choice-sequence minimiser, replay files, determinism self-test"},
]
NOTES = ("Technique: deterministic simulation with fault injection. Every check is `./check <ID>`; VERIF_SEED selects the seed block, "
         "VERIF_REPO may point the checks at another working tree (used by tools/sensitivity.py). exit 0 held / 1 VIOLATION / 3 HARNESS-ERROR.")
NOT_APPLICABLE = [
    {"property_id": "C03", "reason": "parse_range(header, size) is a pure function of two arguments: no schedule, clock, I/O or fault can influence it, so there is nothing for a simulator to decide (its effect on 206 responses is exercised by C02's workload)."},
    {"property_id": "C07", "reason": "which file a path resolves to is a pure function of (path, directory tree, configuration) on a file system nothing modifies during the request; deciding it means enumerating paths, not schedules or faults."},
    {"property_id": "C08", "reason": "route matching and convertor round trips are pure functions of (route table, path); no seam is involved."},
    {"property_id": "C09", "reason": "mount / host dispatch and the root-path rewrite are pure functions of (table, path or Host); no seam is involved."},
    {"property_id": "C13", "reason": "header-injection safety is a property of string escaping and of a sequential in-memory mapping; no schedule, clock or fault."},
    {"property_id": "C17", "reason": "a single-threaded in-memory multi-mapping against a list model: sequential histories without faults, interleavings or time - input generation, not simulation."},
    {"property_id": "C18", "reason": "URL reconstruction and component replacement are pure functions of strings/dicts (WSGI-vs-ASGI agreement of request.url is covered by C04's differential run)."},
]
PENDING = ["C01", "C02", "C04", "C11", "C12", "C14", "C15", "C16", "C20"]
for _p in PENDING:
    NOT_APPLICABLE.append({"property_id": _p, "reason": "not yet claimed: the simulation check for this property is designed (DESIGN.md section 3) but not built yet"})
ENGINES.append({"name": "SimThreads", "path": "sim/threads.py", "serves_properties": ["C06"], "kind_free_text": "real threads run one at a time under a seeded baton scheduler; stub queue.Queue/Future/executor/Thread/time with stdlib semantics; line-level pre-emption via sys.settrace in baize/wsgi/responses.py; virtual time and deadlock detection"})
ENGINES.append({"name": "SimFS", "path": "sim/fs.py", "serves_properties": ["C05"], "kind_free_text": "real temp files with an os.stat overlay for virtual mtime/ctime, and seeded failures of os.open/os.read/os.lseek/open() at a planned call index"})
CLAIMED = {
    "C05": {"engine": "SimLoop + SimASGI / SimWSGI protocol monitors, SimFS I/O faults, SimThreads for WSGI SSE", "level": "fault_enumeration", "design_ref": "3.4",
            "technique": "deterministic simulation with fault enumeration: disconnect / raising send / early close / producer exception / I/O error at every emission point, protocol-monitor oracle",
            "text": "For each seeded (interface, response recipe over every response class, request method/Range/If-Range, server flavour) the fault-free run gives N emission points; the scenario is re-run with each fault kind at each point (client disconnect via receive(), send() raising, server close() after the j-th WSGI item, producer raising at step k, os.open/os.read/os.lseek/open()/read() failing at call i). ASGI-HTTP and PEP 3333 monitors must never trip and only the injected or the producer's own exception may leave the call. Fault points per scenario are enumerated completely (capped at 16 per kind); scenarios are sampled.",
            "note": "The monitors are models of the two gateway specifications written for this check; caller-supplied header values are kept legal."},
    "C19": {"engine": "SimLoop + SimASGI (ASGI SSE), SimThreads + SimWSGI (WSGI SSE), streaming WHATWG EventSource parser as client peer", "level": "exploration", "design_ref": "3.12",
            "technique": "deterministic simulation: seeded producer/ping-timer/consumer schedules and transport re-chunking, EventSource reference parser as oracle",
            "text": "Seeded search over event sequences (data over CR/LF/CRLF and the other Unicode separators, names, ids, retry, same dict yielded twice, charsets) x producer delays around the ping interval x send latencies / consumer delays x thread pre-emption x transport re-chunking; the delivered byte stream is parsed by a streaming WHATWG EventSource parser and each non-comment block must have the effect of the yielded item, pings none, order preserved.",
            "note": "The EventSource parser is a model written from the HTML standard; two readings of a trailing line terminator are accepted; event text is generated workload, the simulated content is the timing/interleaving and the transport chunking."},
    "C06": {"engine": "SimLoop + SimASGI (ASGI), SimThreads (WSGI SSE), SimWSGI (WSGI stream)", "level": "fault_enumeration", "design_ref": "3.5",
            "technique": "deterministic simulation with fault enumeration: every disconnect/close point of each generated scenario, seeded thread/timer schedules",
            "text": "For each seeded scenario (producer length and per-item delays aligned to the ping interval, consumer/send latencies, producer exception, slow cleanup, server flavour, thread pre-emption rate) the fault-free run is followed by one run per emission point with the client disconnect / server close() placed there (plus seeded instants). Termination (virtual-time bound, deadlock detection across real threads), release (cleanup exactly once, no pending task / blocked thread), delivery (in-order prefix) and exception identity are checked. The fault-point space per scenario is enumerated completely; scenarios and schedules are sampled.",
            "note": "Thread simulation pre-empts at line granularity inside baize/wsgi/responses.py and at stub calls, not at bytecode level; queue.Queue/executor/Future waiting are stubs with stdlib semantics; asyncio primitives are the real CPython 3.12 ones under a virtual clock."},
    "C10": {"engine": "SimLoop + SimASGI + SimWSGI", "level": "exploration", "design_ref": "3.6",
            "technique": "deterministic simulation: seeded schedule/fault search over body chunkings x concurrent access programs, reference-model oracle",
            "text": "Seeded search over (body, chunking into server messages incl. empty/absent-key messages, disconnect position, arrival latencies, 1..4 concurrent access programs) under a virtual-time asyncio loop, and sequential programs with short reads on WSGI; every access outcome is judged against an allowed-outcome set, single-task programs against an exact sequential reference model. Sampling, not proof.",
            "note": "Trusts CPython 3.12 asyncio tasks/futures as run by SimLoop (FIFO call_soon, seeded timer ties); the ASGI/WSGI peers are models of a server written for this check."},
}
