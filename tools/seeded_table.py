#!/venv/bin/python
"""Rewrite the seeded-change table in DESIGN.md (between the seeded-table markers) from seeded/*/meta.json and seeded/RESULTS.json."""
import json, os, re
V = os.path.dirname(os.path.dirname(os.path.abspath(__file__)))
res = json.load(open(os.path.join(V, "seeded", "RESULTS.json")))
rows = []
for name in sorted(os.listdir(os.path.join(V, "seeded"))):
    mp = os.path.join(V, "seeded", name, "meta.json")
    if not os.path.exists(mp):
        continue
    m = json.load(open(mp))
    r = res.get(name, {}).get("run")
    if r is None:
        verdict = "not run"
    else:
        parts = []
        for pid, c in r["checks"].items():
            parts.append("%s exit %d%s" % (pid, c["exit"], (": " + ", ".join("`%s`" % k for k in c["violation_keys"][:2])) if c["violation_keys"] else ""))
        verdict = ("caught — " if r["caught"] else "**missed** — ") + "; ".join(parts)
        if not r["caught"] and m.get("status"):
            verdict += " — " + m["status"].split(":", 1)[-1].strip()[:260]
    val = res.get(name, {}).get("validation", {})
    v = "" if val.get("valid", True) else " (validation failed)"
    rows.append("| %s | %s%s | %s |" % (name, m["breaks"].replace("|", "\\|"), v, verdict.replace("|", "\\|")))
HDR = "| name | change (one line) | caught by (first violation keys) |\n|------|-------------------|----------------------------------|\n"
table = "<!-- seeded-table-begin -->\n\n" + HDR + "\n".join(rows) + "\n<!-- seeded-table-end -->"
p = os.path.join(V, "DESIGN.md")
s = open(p).read()
if "@SEEDED_TABLE@" in s:
    s = s.replace("@SEEDED_TABLE@", table)
else:
    s = re.sub(r"<!-- seeded-table-begin -->.*?<!-- seeded-table-end -->", lambda m: table, s, flags=re.S)
open(p, "w").write(s)
caught = sum(1 for n in res if res[n].get("run", {}).get("caught"))
print("%d rows, %d caught" % (len(rows), caught))
