#!/venv/bin/python
"""Validate and run the seeded changes kept under /verif/seeded/<name>/.

  tools/seeded.py validate <name>|all   demo passes on the pristine tree, fails with the patch; passing test set unchanged
  tools/seeded.py run <name>|all [--tier quick] [--runs N]
                                        run the property's check against a scratch copy with the patch applied; expect exit 1

Scratch copies live under a fresh temp directory outside /repo and /verif and are removed afterwards.
Results are written to /verif/seeded/RESULTS.json.
"""
import json
import os
import shutil
import subprocess
import sys
import tempfile
import time

VERIF = os.path.dirname(os.path.dirname(os.path.abspath(__file__)))
REPO = "/repo"
PY = "/venv/bin/python"


def names(arg):
    base = os.path.join(VERIF, "seeded")
    if arg == "all":
        return sorted(n for n in os.listdir(base) if os.path.isfile(os.path.join(base, n, "patch.diff")))
    return [arg]


def scratch(patch=None):
    d = tempfile.mkdtemp(prefix="baize-seeded-")
    subprocess.run(["git", "-C", REPO, "worktree", "add", "--detach", d + "/wt", "HEAD", "-q"], check=True, capture_output=True)
    wt = d + "/wt"
    if patch:
        r = subprocess.run(["git", "-C", wt, "apply", patch], capture_output=True, text=True)
        if r.returncode != 0:
            cleanup(d)
            raise RuntimeError("patch does not apply: " + r.stderr)
    return d, wt


def cleanup(d):
    subprocess.run(["git", "-C", REPO, "worktree", "remove", "--force", d + "/wt"], capture_output=True)
    shutil.rmtree(d, ignore_errors=True)
    subprocess.run(["git", "-C", REPO, "worktree", "prune"], capture_output=True)


def passing(wt):
    r = subprocess.run([PY, "-m", "pytest", "-q", "-p", "no:cacheprovider", "--timeout=900", "--continue-on-collection-errors", "-rA"],
                       cwd=wt, env=dict(os.environ, PYTHONPATH=wt), capture_output=True, text=True, timeout=1800)
    return sorted(l.split(" ", 1)[1].split(" - ")[0] for l in r.stdout.splitlines() if l.startswith("PASSED "))


def demo(wt, path):
    try:
        r = subprocess.run([PY, path], cwd=wt, env=dict(os.environ, PYTHONPATH=wt), capture_output=True, text=True, timeout=300)
        return r.returncode, (r.stdout + r.stderr)[-400:]
    except subprocess.TimeoutExpired:
        return 124, "demo timed out"


def validate(name):
    base = os.path.join(VERIF, "seeded", name)
    out = {"name": name}
    d, wt = scratch()
    try:
        out["pristine_demo_exit"], _ = demo(wt, os.path.join(base, "demo.py"))
        out["pristine_passing"] = len(passing(wt))
        p0 = passing(wt)
    finally:
        cleanup(d)
    d, wt = scratch(os.path.join(base, "patch.diff"))
    try:
        out["patched_demo_exit"], tail = demo(wt, os.path.join(base, "demo.py"))
        out["patched_demo_tail"] = tail
        p1 = passing(wt)
        out["passing_set_identical"] = p0 == p1
    finally:
        cleanup(d)
    out["valid"] = out["pristine_demo_exit"] == 0 and out["patched_demo_exit"] != 0 and out["passing_set_identical"]
    return out


def run(name, extra):
    base = os.path.join(VERIF, "seeded", name)
    meta = json.load(open(os.path.join(base, "meta.json")))
    d, wt = scratch(os.path.join(base, "patch.diff"))
    res = {"name": name, "property": meta["property"], "checks": {}}
    try:
        for pid in meta.get("run_checks", [meta["property"]]):
            t0 = time.time()
            r = subprocess.run([os.path.join(VERIF, "check"), pid, "--no-evidence"] + extra, cwd=VERIF, env=dict(os.environ, VERIF_REPO=wt),
                               capture_output=True, text=True, timeout=3600)
            keys = [l.split("key=", 1)[1].strip() for l in r.stdout.splitlines() if l.startswith("violation key=")]
            keys += [l.split(":", 1)[1].strip().split("  ")[0] for l in r.stdout.splitlines() if l.startswith("further violation key")]
            res["checks"][pid] = {"exit": r.returncode, "violation_keys": keys[:8], "wall_s": round(time.time() - t0, 1),
                                  "tail": r.stdout.strip().splitlines()[-1:] if r.returncode not in (0, 1) else []}
        res["caught"] = any(c["exit"] == 1 for c in res["checks"].values())
    finally:
        cleanup(d)
    return res


def main():
    cmd, arg = sys.argv[1], sys.argv[2]
    extra = sys.argv[3:]
    path = os.path.join(VERIF, "seeded", "RESULTS.json")
    results = json.load(open(path)) if os.path.exists(path) else {}
    for n in names(arg):
        if cmd == "validate":
            r = validate(n)
            key = "validation"
            print(n, "VALID" if r["valid"] else "INVALID", r)
        else:
            r = run(n, extra)
            key = "run"
            print(n, "CAUGHT" if r["caught"] else "MISSED", json.dumps(r["checks"]))
        # merge into the file as it is now (several invocations may run side by side)
        results = json.load(open(path)) if os.path.exists(path) else {}
        results.setdefault(n, {})[key] = r
        json.dump(results, open(path + ".tmp", "w"), indent=1, sort_keys=True)
        os.replace(path + ".tmp", path)


if __name__ == "__main__":
    main()
