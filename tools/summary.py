#!/venv/bin/python
"""Print a markdown table from /verif/evidence/*.json (for DESIGN.md section 10)."""
import glob, json, os
V = os.path.dirname(os.path.dirname(os.path.abspath(__file__)))
print("| id | level | tier | executions | distinct non-trivial | executions/h (16 procs) | simulated s | fault kinds fired (count) | determinism pairs / mismatches | wall s |")
print("|----|-------|------|-----------:|---------------------:|------------------------:|------------:|---------------------------|-------------------------------|-------:|")
for f in sorted(glob.glob(os.path.join(V, "evidence", "C*.json"))):
    e = json.load(open(f)); c = e["coverage"]
    faults = ", ".join("%s %d" % (k, v) for k, v in sorted(c.get("faults_fired", {}).items(), key=lambda kv: -kv[1])[:6])
    d = c.get("determinism", {})
    print("| %s | %s | %s | %d | %d | %d | %.0f | %s | %s+%s / %s | %.0f |" % (e["property_id"], e["level"], e["tier"], c["evaluations"], c["distinct_nontrivial"], c.get("runs_per_hour", 0),
          c.get("simulated_seconds", 0), faults, d.get("pairs_rerun_other_process"), (d.get("fresh_interpreter_other_hashseed") or {}).get("compared"), d.get("mismatches"), e["wall_s"]))
