#!/venv/bin/python
"""import_seeds.py <srcdir> <PROP> <suffix> <rev> 'summary1' 'summary2' 'summary3'  -> seeded/<PROP>-<suffix><n>/"""
import json, os, shutil, sys
V = os.path.dirname(os.path.dirname(os.path.abspath(__file__)))
src, pid, suffix, rev = sys.argv[1:5]
for n, what in enumerate(sys.argv[5:], 1):
    name = "%s-%s%d" % (pid, suffix, n)
    dst = os.path.join(V, "seeded", name)
    os.makedirs(dst, exist_ok=True)
    for f in ("patch.diff", "demo.py", "notes.md"):
        shutil.copy(os.path.join(src, str(n), f), os.path.join(dst, f))
    json.dump({"property": pid, "breaks": what, "needs": "see notes.md (written by the seeding agent)", "run_checks": [pid],
               "origin": "fresh sub-agent given only the property text and a scratch worktree at /repo %s" % rev}, open(os.path.join(dst, "meta.json"), "w"), indent=1)
    print(name)
