"""SimWSGI: the server peer for a WSGI application, plus the PEP 3333 monitor."""
import re

HOP_BY_HOP = {"connection", "keep-alive", "proxy-authenticate", "proxy-authorization", "te", "trailers",
              "transfer-encoding", "upgrade"}
STATUS_RE = re.compile(r"^\d{3} \S.*$", re.S)


class ProducerClosed(Exception):
    pass


class SimInput:
    """wsgi.input with seeded short reads. Never returns b'' before EOF."""

    def __init__(self, data, tape, ctx, short_reads=True):
        self.data = data
        self.pos = 0
        self.tape = tape
        self.ctx = ctx
        self.short = short_reads
        self.reads = 0
        self.reads_after_eof = 0
        self.eof_seen = False

    def read(self, size=-1):
        self.reads += 1
        if size is not None and size > 0x7FFFFFFFFFFFFFFF:
            # what BytesIO / BufferedReader / socket files do
            raise OverflowError("Python int too large to convert to C ssize_t")
        left = len(self.data) - self.pos
        if left <= 0:
            if self.eof_seen:
                self.reads_after_eof += 1
            self.eof_seen = True
            return b""
        if size is None or size < 0:
            n = left
        else:
            n = min(size, left)
            if n == 0:
                return b""
            if self.short and n > 1:
                mode = self.tape.draw(4)
                if mode == 1:
                    n = 1 + self.tape.draw(n)
                    self.ctx.fault("short_read")
                elif mode == 2:
                    n = 1 + self.tape.draw(min(n, 8))
                    self.ctx.fault("short_read")
        out = self.data[self.pos:self.pos + n]
        self.pos += n
        self.ctx.sch("read", len(out))
        return out

    def readline(self, size=-1):
        i = self.data.find(b"\n", self.pos)
        end = len(self.data) if i < 0 else i + 1
        if size is not None and size >= 0:
            end = min(end, self.pos + size)
        out = self.data[self.pos:end]
        self.pos = end
        return out

    def readlines(self, hint=-1):
        out = []
        while True:
            line = self.readline()
            if not line:
                return out
            out.append(line)

    def __iter__(self):
        return iter(self.readlines())


class WsgiMonitor:
    def __init__(self, ctx, surface="wsgi"):
        self.ctx = ctx
        self.surface = surface
        self.started = 0
        self.first_body_seen = False

    def trip(self, clause, detail=""):
        self.ctx.trip("proto|%s|%s" % (self.surface, clause), detail)

    def on_start(self, status, headers, exc_info):
        self.started += 1
        if self.started > 1 and exc_info is None:
            self.trip("start_response-called-twice")
        if self.first_body_seen and exc_info is None:
            self.trip("start_response-after-body")
        if type(status) is not str:
            self.trip("status-not-native-str", repr(status)[:80])
        elif not STATUS_RE.match(status) or any(ord(c) < 32 or ord(c) == 127 for c in status):
            self.trip("status-not-NNN-reason", repr(status)[:80])
        if type(headers) is not list:
            self.trip("headers-not-a-list", type(headers).__name__)
        try:
            hl = list(headers)
        except TypeError:
            hl = []
        for h in hl:
            if type(h) is not tuple or len(h) != 2:
                self.trip("header-not-2-tuple", repr(h)[:100])
                continue
            k, v = h
            if type(k) is not str or type(v) is not str:
                self.trip("header-not-native-str", repr(h)[:100])
                continue
            try:
                k.encode("latin-1")
                v.encode("latin-1")
            except UnicodeEncodeError:
                self.trip("header-not-latin-1", repr(h)[:100])
            if any(ord(c) < 32 or ord(c) == 127 for c in k) or any((ord(c) < 32 and c != "\t") or ord(c) == 127 for c in v):
                self.trip("header-control-char", repr(h)[:100])
            if k.lower() in HOP_BY_HOP:
                self.trip("hop-by-hop-header", k.lower())

    def on_item(self, item):
        if type(item) is not bytes:
            self.trip("item-not-bytes", type(item).__name__)
            return
        if item:
            if not self.started:
                self.trip("body-before-start_response")
            self.first_body_seen = True


class FileWrapper:
    """wsgi.file_wrapper as servers provide it (PEP 3333): iterates the file-like object to its END in blocks."""

    def __init__(self, filelike, blksize=8192):
        self.filelike = filelike
        self.blksize = blksize
        if hasattr(filelike, "close"):
            self.close = filelike.close

    def __iter__(self):
        return self

    def __next__(self):
        data = self.filelike.read(self.blksize)
        if data:
            return data
        raise StopIteration


class WsgiPeer:
    def __init__(self, ctx, tape, req, *, short_reads=True, surface="wsgi", file_wrapper=True):
        self.ctx = ctx
        self.tape = tape
        self.req = req
        self.input = SimInput(req.body, tape, ctx, short_reads)
        self.environ = req.to_environ(self.input)
        if file_wrapper:      # a server capability most servers offer; an application may or may not use it
            self.environ["wsgi.file_wrapper"] = FileWrapper
        self.monitor = WsgiMonitor(ctx, surface)
        self.status = None
        self.status_line = None
        self.headers = None
        self.items = []
        self.written = []
        self.exc = None
        self.closed = False
        self.close_exc = None
        self.pulled_after_close = 0
        self.n_items = 0

    def start_response(self, status, headers, exc_info=None):
        self.monitor.on_start(status, headers, exc_info)
        self.ctx.sch("start_response", status if isinstance(status, str) else repr(status))
        self.status_line = status
        try:
            self.status = int(str(status).split(" ")[0])
        except ValueError:
            self.status = None
        try:
            self.headers = [(str(k), str(v)) for k, v in headers]
        except Exception:
            self.headers = []
        return self.written.append

    def run(self, app, close_after=None, on_item=None):
        """Call the app and iterate its result like a server does.

        close_after=j: the client goes away after the j-th item (j may be 0): the
        server stops iterating and calls close() (also when on_item returns True:
        the client went away at some instant and the server notices it now). Returns normally; the exception
        escaping the app/iteration (if any) is kept in self.exc, the one escaping
        close() in self.close_exc.
        """
        result = None
        try:
            result = app(self.environ, self.start_response)
            it = iter(result)
            if close_after is not None and close_after <= 0:
                self.ctx.fault("server_close_early")
            else:
                for item in it:
                    self.n_items += 1
                    self.monitor.on_item(item)
                    self.items.append(item if isinstance(item, bytes) else b"")
                    self.ctx.sch("item", len(item) if hasattr(item, "__len__") else -1)
                    stop = on_item(self, item) if on_item is not None else None
                    if stop is True or (close_after is not None and self.n_items >= close_after):
                        self.ctx.fault("server_close_early")
                        break
        except BaseException as e:  # noqa
            if isinstance(e, (SystemExit, KeyboardInterrupt)) or type(e).__name__ in ("SimKilled", "HarnessError"):
                raise
            self.exc = e
        finally:
            if result is not None and hasattr(result, "close"):
                try:
                    result.close()
                except BaseException as e:  # noqa
                    if isinstance(e, (SystemExit, KeyboardInterrupt)) or type(e).__name__ in ("SimKilled", "HarnessError"):
                        raise
                    self.close_exc = e
            self.closed = True
        return self

    @property
    def body(self):
        return b"".join(self.written) + b"".join(self.items)

    def header_list(self):
        return [(k.lower(), v) for k, v in (self.headers or [])]

    def header(self, name, default=None):
        for k, v in self.header_list():
            if k == name.lower():
                return v
        return default
