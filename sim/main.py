"""Driver: fan seeds out to workers, collect evidence, minimise and report violations.

exit 0  property held on everything explored (KNOWN-FINDING lines possible)
exit 1  VIOLATION property=<id> replay=<path>
exit 3  HARNESS-ERROR (simulator bug, determinism mismatch, watchdog, dead probe)
"""
import argparse
import faulthandler
import fnmatch
import hashlib
import importlib
import json
import multiprocessing
import os
import shutil
import subprocess
import sys
import tempfile
import time
import traceback
from collections import Counter
from concurrent.futures import ProcessPoolExecutor, as_completed

VERIF = os.path.dirname(os.path.dirname(os.path.abspath(__file__)))
REPO = os.environ.get("VERIF_REPO", "/repo")


def _bootstrap():
    # fresh interpreter with a fixed hash seed; baize imported from the working tree
    want = os.environ.get("VERIF_HASHSEED", "0")
    if os.environ.get("PYTHONHASHSEED") != want:
        env = dict(os.environ, PYTHONHASHSEED=want)
        os.execve(sys.executable, [sys.executable] + sys.argv, env)
    sys.dont_write_bytecode = True
    here = os.path.dirname(os.path.abspath(__file__))
    for p in (REPO, VERIF, here):
        while p in sys.path:
            sys.path.remove(p)
    sys.path.insert(0, VERIF)
    sys.path.insert(0, REPO)


_bootstrap()

from sim.core import HarnessError, jsonable, run_seed  # noqa: E402
from sim.tape import Budget, mix, shrink_choices  # noqa: E402

CLAIMED = ["C01", "C02", "C04", "C05", "C06", "C10", "C11", "C12", "C14", "C15", "C16", "C19", "C20"]


def load_prop(pid):
    mod = importlib.import_module("sim.props.%s" % pid.lower())
    return mod.PROP()


def repo_rev():
    try:
        head = subprocess.run(["git", "-C", REPO, "rev-parse", "--short", "HEAD"], capture_output=True, text=True, timeout=20).stdout.strip()
        dirty = subprocess.run(["git", "-C", REPO, "status", "--porcelain", "--untracked-files=no"], capture_output=True, text=True, timeout=20).stdout.strip()
        return head + ("+dirty" if dirty else "")
    except Exception:
        return "unknown"


# ----------------------------------------------------------------------------
# worker side
# ----------------------------------------------------------------------------
_W = {}


def _worker_init(pid_, root, wall):
    import baize  # noqa
    assert os.path.realpath(os.path.dirname(os.path.dirname(baize.__file__))) == os.path.realpath(REPO), baize.__file__
    wd = os.path.join(root, "w%d" % os.getpid())
    os.makedirs(wd, exist_ok=True)
    prop = load_prop(pid_)
    prop.setup(wd)
    _W["prop"] = prop
    _W["wd"] = wd
    faulthandler.enable()
    faulthandler.dump_traceback_later(wall, exit=True)
    try:    # explosive memory use of the code under test ends as MemoryError in that run, not as an OOM-killed pool
        import resource
        resource.setrlimit(resource.RLIMIT_AS, (6 << 30, 6 << 30))
    except Exception:
        pass


def _summ(results, idx, seed):
    """Condense the executions of one seed."""
    out = []
    for variant, plan, ctx, ptape, stape in results:
        out.append({
            "idx": idx, "seed": seed, "variant": variant,
            "digest": ctx.digest(), "inter": ctx.interleaving(),
            "faults": ctx.faults, "probes": ctx.probes, "sim_time": ctx.sim_time,
            "violations": ctx.violations, "trips": len(ctx.monitor_trips),
            "nontrivial": _W["prop"].nontrivial(plan, ctx, variant),
        })
    return out


def _fresh_library():
    """Every batch starts from freshly imported library modules: whatever a tree under test keeps at module or class
    level (caches, shared mutable defaults, growing lists) cannot leak from one batch into the next, and memory cannot
    grow without bound over a long sweep.  The property's setup() runs again so that seams and fixtures are re-installed
    on the new module objects."""
    from sim import core
    for m in [m for m in sys.modules if m == "baize" or m.startswith("baize.")]:
        del sys.modules[m]
    core._CACHES["mods"] = None
    import baize  # noqa
    _W["prop"].setup(_W["wd"])
    _W["batches"] = _W.get("batches", 0) + 1


def _run_batch(base_seed, pid_, start, count, det_every, want_samples, stop_at=None):
    import gc
    if _W.get("batches") is not None:
        _fresh_library()
    else:
        _W["batches"] = 0
    prop = _W["prop"]
    agg = {"evals": 0, "seeds": 0, "faults": Counter(), "probes": Counter(), "sim_time": 0.0,
           "inter": set(), "viol": [], "det": {}, "samples": [], "trips": 0, "harness": None, "t0": time.time()}
    for i in range(start, start + count):
        if stop_at is not None and time.time() > stop_at and i > start:
            break                      # the sweep's wall budget is used up: hand back what was explored
        if any(v["key"].endswith(("run-exceeded-real-time-budget", "run-exhausted-memory")) for v in agg["viol"][-3:]):
            break                      # the tree under test spins or explodes: no point in burning the whole batch
        seed = mix(base_seed, pid_, i)
        try:
            results = run_seed(prop, seed, _W["wd"])
        except HarnessError as e:
            agg["harness"] = "seed index %d (seed %d): %s" % (i, seed, e)
            break
        agg["seeds"] += 1
        _W["wseq"] = _W.get("wseq", 0) + 1
        dg = hashlib.sha1()
        for r, (variant, plan, ctx, ptape, stape) in zip(_summ(results, i, seed), results):
            agg["evals"] += 1
            agg["faults"].update(r["faults"])
            agg["probes"].update(r["probes"])
            agg["sim_time"] += r["sim_time"]
            agg["trips"] += r["trips"]
            if r["nontrivial"]:
                agg["inter"].add(r["inter"])
            dg.update(r["digest"].encode())
            if r["violations"] and len(agg["viol"]) < 400:
                seen = set()
                for key, detail in r["violations"]:
                    if key in seen:
                        continue
                    seen.add(key)
                    agg["viol"].append({"key": key, "detail": detail, "idx": i, "seed": seed, "variant": variant,
                                        "plan_choices": list(ptape.record), "sched_choices": list(stape.record),
                                        "pid": os.getpid(), "wseq": _W.get("wseq", 0)})
            if want_samples and len(agg["samples"]) < want_samples and r["nontrivial"] and (i % 7 == 0 or not agg["samples"]):
                d = prop.describe(plan, variant)
                d.update({"seed": seed, "outcome": "violations=%d faults=%s sim_time=%.3f" % (len(r["violations"]), dict(r["faults"]), r["sim_time"])})
                agg["samples"].append(d)
        if det_every and i % det_every == 0:
            agg["det"][i] = dg.hexdigest()
        if i % 50 == 0:
            gc.collect()
    gc.collect()
    agg["wall"] = time.time() - agg["t0"]
    return agg


def _det_batch(base_seed, pid_, idxs):
    if _W.get("batches") is not None:
        _fresh_library()
    else:
        _W["batches"] = 0
    prop = _W["prop"]
    out = {}
    for i in idxs:
        seed = mix(base_seed, pid_, i)
        results = run_seed(prop, seed, _W["wd"])
        dg = hashlib.sha1()
        for variant, plan, ctx, ptape, stape in results:
            dg.update(ctx.digest().encode())
        out[i] = dg.hexdigest()
    return out


# ----------------------------------------------------------------------------
# known findings
# ----------------------------------------------------------------------------
def load_known(pid_):
    """known_findings.txt, one entry per line (never written at run time):

    fixed: property=<id> <commit> <what failed>            -- suppresses nothing
    known: property=<id> id=<entry id> keys=<fnmatch pattern>[ <pattern>...] :: <what fails>
    """
    path = os.path.join(VERIF, "known_findings.txt")
    known = []
    if os.path.exists(path):
        for line in open(path):
            line = line.strip()
            if not line.startswith("known:"):
                continue
            head, _, what = line[len("known:"):].partition("::")
            fields = head.split()
            e = {"what": what.strip(), "keys": []}
            for f in fields:
                if f.startswith("property="):
                    e["property"] = f[9:]
                elif f.startswith("id="):
                    e["id"] = f[3:]
                elif f.startswith("keys="):
                    e["keys"].append(f[5:])
                else:
                    e["keys"].append(f)
            if e.get("property") == pid_:
                known.append(e)
    return known


def match_known(known, key):
    for e in known:
        for pat in e.get("keys", []):
            if fnmatch.fnmatchcase(key, pat):
                return e
    return None


# ----------------------------------------------------------------------------
# replay / shrink
# ----------------------------------------------------------------------------
def execute_replay(prop, wd, rep):
    results = run_seed(prop, rep["seed"], wd, plan_choices=rep["plan_choices"], sched_choices=rep["sched_choices"],
                       only_variant=rep.get("variant"))
    variant, plan, ctx, ptape, stape = results[-1]
    return plan, ctx


def shrink(prop, wd, v, max_execs=1500, max_secs=25.0):
    key = v["key"]
    t_end = time.time() + max_secs
    budget = Budget(max_execs, t_end, time.time)
    cur = {"seed": v["seed"], "variant": v["variant"], "plan_choices": list(v["plan_choices"]), "sched_choices": list(v["sched_choices"])}

    def fails_with(pc, sc, variant=cur["variant"]):
        try:
            _, ctx = execute_replay(prop, wd, {"seed": cur["seed"], "variant": variant, "plan_choices": pc, "sched_choices": sc})
        except HarnessError:
            return False
        return any(k == key for k, _ in ctx.violations)

    if not fails_with(cur["plan_choices"], cur["sched_choices"]):
        return None  # not reproducible from its own record: harness problem
    cur["plan_choices"] = shrink_choices(cur["plan_choices"], lambda pc: fails_with(pc, cur["sched_choices"]), budget)
    cur["sched_choices"] = shrink_choices(cur["sched_choices"], lambda sc: fails_with(cur["plan_choices"], sc), budget)
    if budget.left():
        cur["plan_choices"] = shrink_choices(cur["plan_choices"], lambda pc: fails_with(pc, cur["sched_choices"]), budget)
    return cur


def write_replay(prop, wd, pid_, v, cur, tier, base_seed):
    plan, ctx = execute_replay(prop, wd, cur)
    detail = next((d for k, d in ctx.violations if k == v["key"]), v["detail"])
    rep = {
        "property": pid_, "key": v["key"], "detail": detail, "seed": cur["seed"], "variant": jsonable_variant(cur["variant"]),
        "plan_choices": cur["plan_choices"], "sched_choices": cur["sched_choices"],
        "plan": prop.describe(plan, cur["variant"]), "trace_digest": ctx.digest(),
        "faults": dict(ctx.faults), "repo_rev": repo_rev(), "found": {"tier": tier, "verif_seed": base_seed, "seed_index": v["idx"],
                                                                      "original_plan_len": len(v["plan_choices"]), "original_sched_len": len(v["sched_choices"])},
        "trace_tail": [repr(e)[:200] for e in ctx.log[-60:]],
    }
    os.makedirs(os.path.join(VERIF, "replays"), exist_ok=True)
    name = "%s-%s-%d.json" % (pid_, hashlib.sha1(v["key"].encode()).hexdigest()[:8], cur["seed"] % 10**8)
    path = os.path.join(VERIF, "replays", name)
    with open(path, "w") as f:
        json.dump(rep, f, indent=1, default=repr)
    return path, rep


def jsonable_variant(v):
    return v


def do_replay(pid_, path):
    rep = json.load(open(path))
    pid_ = rep.get("property", pid_)
    prop = load_prop(pid_)
    root = tempfile.mkdtemp(prefix="baize-verif-")
    try:
        prop.setup(root)
        variant = rep.get("variant")
        if isinstance(variant, list):
            variant = _tuplify(variant)
        plan, ctx = execute_replay(prop, root, dict(rep, variant=variant))
        keys = [k for k, _ in ctx.violations]
        print("replay %s: seed=%d variant=%r" % (path, rep["seed"], variant))
        print("plan:", json.dumps(prop.describe(plan, variant), default=repr)[:3000])
        for e in ctx.log[-40:]:
            print("  ev", repr(e)[:240])
        print("digest recorded=%s now=%s" % (rep.get("trace_digest"), ctx.digest()))
        if rep["key"] in keys:
            d = next(d for k, d in ctx.violations if k == rep["key"])
            print("reproduced key=%s detail=%s" % (rep["key"], d))
            if rep.get("trace_digest") is None:
                rep["trace_digest"] = ctx.digest()
                rep["plan"] = prop.describe(plan, variant)
                with open(path, "w") as f:
                    json.dump(rep, f, indent=1, default=repr)
            same = rep.get("trace_digest") == ctx.digest()
            print("trace identical: %s" % same)
            known = match_known(load_known(pid_), rep["key"])
            if known:
                print("KNOWN-FINDING: property=%s %s" % (pid_, known["what"]))
                return 0
            print("VIOLATION property=%s replay=%s" % (pid_, path))
            return 1
        print("not reproduced (violations now: %r)" % keys)
        return 0
    finally:
        shutil.rmtree(root, ignore_errors=True)


def _tuplify(x):
    if isinstance(x, list):
        return tuple(_tuplify(i) for i in x)
    return x


# ----------------------------------------------------------------------------
# main
# ----------------------------------------------------------------------------
def main():
    ap = argparse.ArgumentParser()
    ap.add_argument("prop")
    ap.add_argument("--tier", default=os.environ.get("VERIF_TIER", "quick"), choices=["quick", "thorough"])
    ap.add_argument("--seed", type=int, default=None)
    ap.add_argument("--replay", default=None)
    ap.add_argument("--expect-key", default=None)
    ap.add_argument("--runs", type=int, default=None)
    ap.add_argument("--wall", type=float, default=None)
    ap.add_argument("--workers", type=int, default=None)
    ap.add_argument("--no-evidence", action="store_true")
    ap.add_argument("--det-only", default=None, help="comma separated seed indexes: print their digests and exit")
    args = ap.parse_args()
    pid_ = args.prop.upper()
    if args.replay:
        return do_replay(pid_, args.replay)
    base_seed = args.seed if args.seed is not None else int(os.environ.get("VERIF_SEED", "20260926") or 0)
    prop = load_prop(pid_)
    tier = args.tier
    runs = args.runs or (prop.quick_runs if tier == "quick" else prop.thorough_runs)
    wall = args.wall or (prop.quick_wall if tier == "quick" else prop.thorough_wall)
    workers = args.workers or int(os.environ.get("VERIF_WORKERS", "0") or 0) or min(16, os.cpu_count() or 1)
    root = tempfile.mkdtemp(prefix="baize-verif-")
    t0 = time.time()
    try:
        if args.det_only:
            _worker_init(pid_, root, 600)
            print(json.dumps(_det_batch(base_seed, pid_, [int(x) for x in args.det_only.split(",")])))
            return 0
        return _main(prop, pid_, tier, base_seed, runs, wall, workers, root, t0, args)
    finally:
        shutil.rmtree(root, ignore_errors=True)


def _main(prop, pid_, tier, base_seed, runs, wall, workers, root, t0, args):
    print("check %s tier=%s VERIF_SEED=%d runs<=%d wall<=%.0fs workers=%d repo=%s rev=%s" % (pid_, tier, base_seed, runs, wall, workers, REPO, repo_rev()), flush=True)
    det_every = 25 if tier == "quick" else 40
    batch = prop.batch
    ctxmp = multiprocessing.get_context("fork")
    agg = {"evals": 0, "seeds": 0, "faults": Counter(), "probes": Counter(), "sim_time": 0.0, "inter": set(), "viol": [],
           "det": {}, "samples": [], "trips": 0}
    harness = []
    deadline = t0 + wall
    try:
        with ProcessPoolExecutor(max_workers=workers, mp_context=ctxmp, initializer=_worker_init, initargs=(pid_, root, wall * 3 + 300)) as ex:
            starts = list(range(0, runs, batch))
            pending = set()
            it = iter(starts)
            submitted = 0

            def submit_next():
                nonlocal submitted
                try:
                    s = next(it)
                except StopIteration:
                    return False
                pending.add(ex.submit(_run_batch, base_seed, pid_, s, min(batch, runs - s), det_every, 2 if submitted < 6 else 0, deadline + 15.0))
                submitted += 1
                return True

            for _ in range(workers * 2):
                if not submit_next():
                    break
            stop = False
            while pending:
                done = next(as_completed(pending))
                pending.discard(done)
                r = done.result()
                if r["harness"]:
                    harness.append(r["harness"])
                    stop = True
                for k in ("evals", "seeds", "sim_time", "trips"):
                    agg[k] += r[k]
                agg["faults"].update(r["faults"])
                agg["probes"].update(r["probes"])
                agg["inter"] |= r["inter"]
                agg["viol"].extend(r["viol"])
                agg["det"].update(r["det"])
                if len(agg["samples"]) < 6:
                    agg["samples"].extend(r["samples"])
                if time.time() > deadline:
                    stop = True
                # many distinct violations already: no need to continue the sweep
                if len({v["key"] for v in agg["viol"]}) >= 40:
                    stop = True
                if not stop:
                    submit_next()
            # determinism self-test: re-run the sampled seeds in other processes / other order
            det_mismatch = []
            det_pairs = 0
            if not harness and agg["det"]:
                idxs = sorted(agg["det"])
                if tier == "quick":
                    idxs = idxs[: max(200, len(idxs) // 4)]
                idxs = idxs[::-1]
                chunks = [idxs[i::workers] for i in range(workers)]
                futs = [ex.submit(_det_batch, base_seed, pid_, c) for c in chunks if c]
                for f in futs:
                    for i, d in f.result().items():
                        det_pairs += 1
                        if agg["det"][i] != d:
                            det_mismatch.append(i)
    except Exception as e:  # BrokenProcessPool, HarnessError from det batch, ...
        harness.append("driver: %s: %s" % (type(e).__name__, e))
        traceback.print_exc()
        det_mismatch, det_pairs = [], 0

    sweep_wall = time.time() - t0
    # fresh-interpreter determinism (another hash seed, one process) on a small sample
    fresh = None
    if not harness and agg["det"]:
        n = 30 if tier == "quick" else 120
        try:
            env = dict(os.environ, VERIF_HASHSEED="12345", PYTHONHASHSEED="12345")
            idxs = sorted(agg["det"])
            idxs = idxs[:: max(1, len(idxs) // n)][:n]
            p = subprocess.run([sys.executable, os.path.abspath(__file__), pid_, "--det-only", ",".join(map(str, idxs)), "--seed", str(base_seed)],
                               capture_output=True, text=True, timeout=300, env=env)
            got = json.loads(p.stdout.strip().splitlines()[-1])
            bad = [int(i) for i, d in got.items() if int(i) in agg["det"] and agg["det"][int(i)] != d]
            cmp_n = sum(1 for i in got if int(i) in agg["det"])
            fresh = {"compared": cmp_n, "mismatches": len(bad)}
            if bad:
                det_mismatch.extend(bad)
        except Exception as e:
            harness.append("fresh-interpreter determinism run failed: %r" % (e,))

    # ---- violations --------------------------------------------------------
    known = load_known(pid_)
    by_key = {}
    for v in sorted(agg["viol"], key=lambda v: (v["idx"], repr(v["variant"]))):
        by_key.setdefault(v["key"], []).append(v)
    known_seen = {}
    new_keys = []
    for key, vs in by_key.items():
        e = match_known(known, key)
        if e is not None:
            known_seen.setdefault(e["id"], [e, 0, key])
            known_seen[e["id"]][1] += len(vs)
        else:
            new_keys.append(key)
    for eid, (e, n, key) in sorted(known_seen.items()):
        print("KNOWN-FINDING: property=%s %s [%s; %d runs, e.g. key %s]" % (pid_, e["what"], eid, n, key))
    replays = []
    if new_keys:
        prop.setup(os.path.join(root, "shrink"))
        os.makedirs(os.path.join(root, "shrink"), exist_ok=True)
        for key in new_keys[:6]:
            # prefer the shortest recorded instance; an instance may fail to reproduce from its own record when the
            # tree under test keeps state across runs (module-level cache, shared mutable default): try a few
            cands = sorted(by_key[key], key=lambda v: len(v["plan_choices"]) + len(v["sched_choices"]))
            cands = cands[:20] + [c for c in sorted(by_key[key], key=lambda v: v["idx"])[:20] if c not in cands[:20]]
            cur = v = None
            err = None
            for v in cands:
                try:
                    cur = shrink(prop, os.path.join(root, "shrink"), v)
                except HarnessError as e:
                    err = "while shrinking %s: %s" % (key, e)
                    cur = None
                if cur is not None:
                    break
            if cur is None:
                harness.append(err or "violation %s (seed indexes %s) did not reproduce from its own record (state kept across runs?)" % (key, [c["idx"] for c in cands]))
                continue
            try:
                path, rep = write_replay(prop, os.path.join(root, "shrink"), pid_, v, cur, tier, base_seed)
            except HarnessError as e:
                harness.append("while shrinking %s: %s" % (key, e))
                continue
            # the replay file must reproduce in a fresh interpreter
            p = subprocess.run([sys.executable, os.path.abspath(__file__), pid_, "--replay", path], capture_output=True, text=True, timeout=300)
            ok = ("reproduced key=%s" % key) in p.stdout and "trace identical: True" in p.stdout
            if not ok:
                harness.append("replay of %s did not reproduce identically in a fresh interpreter" % path)
                continue
            replays.append((key, path, rep))
            print("violation key=%s\n  detail: %s\n  minimised: plan %d->%d choices, sched %d->%d choices; seed index %d"
                  % (key, rep["detail"][:600], len(v["plan_choices"]), len(cur["plan_choices"]), len(v["sched_choices"]), len(cur["sched_choices"]), v["idx"]))
            print("VIOLATION property=%s replay=%s" % (pid_, path), flush=True)
        if not replays:
            # Nothing was confirmed in a fresh interpreter: the tree under test probably keeps state across runs (a
            # module-level object mutated by an earlier run).  Minimising inside this - by now equally polluted - process
            # is then unsound, so fall back to UNMINIMISED records, judged by a fresh interpreter only.  The first
            # violating run of each worker process is self-contained: try those first.
            firsts = {}
            for v in agg["viol"]:
                if v["key"] in new_keys and (v["pid"] not in firsts or v["wseq"] < firsts[v["pid"]]["wseq"]):
                    firsts[v["pid"]] = v
            order = sorted(firsts.values(), key=lambda v: len(v["plan_choices"]) + len(v["sched_choices"]))
            order += [v for v in sorted(agg["viol"], key=lambda v: v["wseq"])[:40] if v["key"] in new_keys and v not in order]
            for v in order[:40]:
                cur = {"seed": v["seed"], "variant": v["variant"], "plan_choices": list(v["plan_choices"]), "sched_choices": list(v["sched_choices"])}
                rep = {"property": pid_, "key": v["key"], "detail": v["detail"], "seed": v["seed"], "variant": v["variant"],
                       "plan_choices": cur["plan_choices"], "sched_choices": cur["sched_choices"], "trace_digest": None, "repo_rev": repo_rev(),
                       "note": "not minimised: the tree under test keeps state across runs, minimisation inside a long-lived process would be unsound",
                       "found": {"tier": tier, "verif_seed": base_seed, "seed_index": v["idx"]}}
                os.makedirs(os.path.join(VERIF, "replays"), exist_ok=True)
                path = os.path.join(VERIF, "replays", "%s-%s-%d.json" % (pid_, hashlib.sha1(v["key"].encode()).hexdigest()[:8], v["seed"] % 10**8))
                with open(path, "w") as f:
                    json.dump(rep, f, indent=1, default=repr)
                p = subprocess.run([sys.executable, os.path.abspath(__file__), pid_, "--replay", path], capture_output=True, text=True, timeout=300)
                if ("reproduced key=%s" % v["key"]) in p.stdout:
                    replays.append((v["key"], path, rep))
                    harness[:] = [h for h in harness if "did not reproduce" not in h]
                    print("violation key=%s (unminimised; first self-contained instance found)\n  detail: %s" % (v["key"], v["detail"][:600]))
                    print("VIOLATION property=%s replay=%s" % (pid_, path), flush=True)
                    break
                os.unlink(path)
        for key in new_keys[6:]:
            print("further violation key (not minimised): %s  e.g. %s" % (key, by_key[key][0]["detail"][:200]))

    # ---- probes -------------------------------------------------------------
    dead = [p for p in prop.hard_probes if agg["probes"].get(p, 0) + agg["faults"].get(p, 0) == 0]
    if dead and not new_keys and agg["seeds"] >= min(runs, 2000):
        harness.append("reach probes stuck at zero: %s" % ", ".join(dead))
    if det_mismatch:
        harness.append("determinism mismatch at seed indexes %s" % sorted(set(det_mismatch))[:10])

    wall_s = time.time() - t0
    ev = {
        "property_id": pid_, "tier": tier, "seed": base_seed, "level": prop.level,
        "coverage": {
            "evaluations": agg["evals"],
            "distinct_nontrivial": len(agg["inter"]),
            "rule": prop.rule,
            "samples": agg["samples"][:4] or [{"note": "no sample collected"}],
            "seeds_run": agg["seeds"],
            "runs_per_hour": int(agg["evals"] / max(sweep_wall, 1e-6) * 3600),
            "seeds_per_hour": int(agg["seeds"] / max(sweep_wall, 1e-6) * 3600),
            "simulated_seconds": round(agg["sim_time"], 3),
            "faults_fired": dict(sorted(agg["faults"].items())),
            "probes": dict(sorted(agg["probes"].items())),
            "distinct_interleavings": len(agg["inter"]),
            "interleaving_measure": "SHA-1 of the sequence of scheduling events (which actor ran / which message was delivered or emitted at which virtual instant) of runs in which a fault fired or >=2 actors interleaved",
            "components": prop.components,
            "determinism": {"pairs_rerun_other_process": det_pairs, "fresh_interpreter_other_hashseed": fresh, "mismatches": len(set(det_mismatch))},
            "protocol_monitor_trips_seen": agg["trips"],
            "known_findings_seen": {eid: n for eid, (e, n, key) in known_seen.items()},
            "violation_keys": new_keys[:20],
            "workers": workers,
            "repo_rev": repo_rev(),
            "exhaustive": False,
        },
        "assumptions": list(prop.assumptions),
        "wall_s": round(wall_s, 2),
        "violations": len(new_keys),
    }
    if harness:
        ev["coverage"]["harness_errors"] = harness[:5]
    if not args.no_evidence:
        os.makedirs(os.path.join(VERIF, "evidence"), exist_ok=True)
        with open(os.path.join(VERIF, "evidence", "%s.json" % pid_), "w") as f:
            json.dump(ev, f, indent=1, default=repr, sort_keys=True)
    print("%s: %d executions of %d seeds in %.1fs (%.0f/s), %d distinct nontrivial interleavings, sim time %.0fs, faults %s"
          % (pid_, agg["evals"], agg["seeds"], sweep_wall, agg["evals"] / max(sweep_wall, 1e-6), len(agg["inter"]), agg["sim_time"], dict(agg["faults"])))
    print("probes: %s" % dict(agg["probes"]))
    print("determinism: %d pairs re-run, fresh interpreter %s, mismatches %d" % (det_pairs, fresh, len(set(det_mismatch))))
    if new_keys and replays:
        return 1
    if harness:
        for h in harness:
            print("HARNESS-ERROR: %s" % h)
        return 3
    if new_keys:
        print("HARNESS-ERROR: violations seen but none could be replayed")
        return 3
    print("OK property=%s held on everything explored" % pid_)
    return 0


if __name__ == "__main__":
    sys.exit(main())
