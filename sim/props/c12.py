"""C12 - untrusted input never escapes as a non-HTTP error (realised as transport corruption).

One run: a valid request for one target (request accessors | body/json/form/stream | FileResponse |
Router | Subpaths | Hosts | Files | Pages) is serialised to HTTP/1.1 wire bytes,
1..3 faults (truncate / bit flip / drop / duplicate / swap / dictionary splice, positions biased by
field) corrupt it, a tolerant front-end (sim/transport.py: what real ASGI / WSGI servers accept) turns
the result into scope + receive() script or environ + wsgi.input, and the target runs on baize.
The corruption happens either in flight (Content-Length stays as sent: the server delivers
min(declared, available) bytes and then disconnect / EOF) or at the source (a hostile or broken
client frames its own bytes: Content-Length is recomputed) - only the second kind lets an over-long
body (5000-digit number, 2000 nested brackets) through a server.  One run in 16 is fault-free.

Oracle: every entry point ends in a value, a response with status < 500, an HTTPException with
400 <= status < 500, baize.asgi.ClientDisconnect or RuntimeError("Stream consumed").  Anything else
(including a hang) is a violation keyed
    C12|<iface>|<entry point>|<exception type>|<innermost baize function in the traceback>
"""
import hashlib
import json
import os
import re
from email.utils import formatdate

from .. import fs as simfs
from .. import transport as tr
from ..asgi_peer import AsgiHttpPeer
from ..core import HarnessError, Prop, jsonable
from ..loop import SimDeadlock, SimStepLimit, SimTimeLimit, run_sim
from ..models import multipart as mpm
from ..wsgi_peer import WsgiPeer

# ---------------------------------------------------------------------------------------------
# the static tree (created once per worker in setup())
# ---------------------------------------------------------------------------------------------
MTIME = 1_600_000_000.0
TREE = [("a.txt", b"0123456789"), ("index.html", b"<h1>index</h1>"), ("page.html", b"<p>page</p>"),
        ("sub/index.html", b"<h1>sub</h1>"), ("sub/b.txt", b"bbbb"), ("big.bin", bytes((i * 7) % 251 for i in range(5000))),
        ("empty.bin", b""), ("页.html", b"<p>ye</p>"),
        # a file whose name is not UTF-8 on disk (latin-1 bytes), of a type mimetypes does not know
        ("r\udce9sum\udce9.dat", b"cv"), ("caf\udce9.txt", b"menu")]
SIZES = {rel: len(data) for rel, data in TREE}


def _mtime(rel):
    return MTIME + [r for r, _ in TREE].index(rel)


def _etag(rel):
    return hashlib.sha1(("%s-%s" % (_mtime(rel), SIZES[rel])).encode("ascii")).hexdigest()


# ---------------------------------------------------------------------------------------------
# pools of valid values
# ---------------------------------------------------------------------------------------------
HOSTS = ["example.com", "example.com:8080", "api.example.com", "static.example.com", "www.example.com", "[::1]:8000", "127.0.0.1:8000"]
COOKIES = ["a=1", "a=1; b=hello; sess=abc123", 'q="quo\\"ted"; k="\\303\\251"; x=', "name=v; =bare; novalue"]
ACCEPTS = ["*/*", "application/json", "text/html, application/json;q=0.9, */*;q=0.8", "text/*;q=0.5, image/png"]
DATES = ["Wed, 21 Oct 2015 07:28:00 GMT", "Sun, 06 Nov 1994 08:49:37 GMT", "Mon, 01 Jan 2024 00:00:00 +0000",
         # well-formed but extreme: a zone-less or -0000 date is naive, its instant depends on the PROCESS time zone
         "Fri, 31 Dec 9999 23:59:59 -0000", "Fri, 31 Dec 9999 23:59:59", "Mon, 01 Jan 0001 00:00:00 -0000", "Thu, 01 Jan 1970 00:00:00 -0000"]
ZONES = ["UTC", "UTC", "Asia/Shanghai", "Pacific/Kiritimati", "America/New_York", "Pacific/Pago_Pago"]
REFERERS = ["https://example.com/page?x=1", "http://[::1]:8000/a", "/relative/path", "https://user:pw@example.com:8443/p?q#f"]
RANGES = ["bytes=0-4", "bytes=2-", "bytes=-3", "bytes=0-1,4-5", "bytes=0-0,2-3,5-", "bytes=1-1"]
QUERIES = [None, b"", b"a=1", b"a=1&b=two&b=three", b"q=%E4%B8%AD&empty=", b"x", b"a=%20b+c&d=1;e=2"]
PATHS = [b"/", b"/some/path", b"/caf%C3%A9", b"/a%20b/c", b"/x.y/z-1_2~"]
ROUTER_PATHS = [b"/", b"/str/hello", b"/int/42", b"/dec/3.14", b"/dec/7", b"/uuid/123e4567-e89b-12d3-a456-426614174000",
                b"/date/2021-03-04", b"/any/a/b/c", b"/users/7/posts/2021-01-02", b"/nope"]
STATIC_PATHS = [b"/a.txt", b"/sub/b.txt", b"/big.bin", b"/empty.bin", b"/index.html", b"/%E9%A1%B5.html", b"/missing.txt", b"/sub", b"/",
                b"/r%E9sum%E9.dat", b"/caf%E9.txt"]
PAGES_PATHS = STATIC_PATHS + [b"/page", b"/page.html", b"/sub/", b"/sub/index"]
SUBPATHS_PATHS = [b"/api/int/5", b"/api/v1/x", b"/api/v1", b"/static/a.txt", b"/static/sub/b.txt", b"/pages/sub/", b"/pages/page",
                  b"/other", b"/api", b"/"]
JSON_VALUES = [{"a": [1, 2, 7], "k": "v"}, {"k": "é", "n": -1.5e3, "t": True, "z": None}, [1, [2, [3, []]], {"x": {}}], "text", 12345, {"id": 9007199254740993}]
URLENC = [b"a=1&b=two", b"a=1&b=two&c=%E4%B8%AD&d=x+y", b"k=%C3%A9&k=2&empty=", b"only"]

TARGETS = [(4, "accessors"), (8, "reqbody"), (3, "fileresponse"), (4, "router"), (1, "subpaths"), (1, "hosts"), (3, "files"), (3, "pages"), (2, "nested")]
# bundled applications mounted below a prefix (the mount rewrites the path for them)
NESTED_PATHS = [b"/static/a.txt", b"/static/%E9%A1%B5.html", b"/static/sub/b.txt", b"/static/r%E9sum%E9.dat", b"/pages/sub/", b"/pages/page", b"/pages/%E9%A1%B5",
                b"/api/int/5", b"/api/str/%E4%B8%AD%E6%96%87", b"/api/any/a/%E9%A1%B5/c", b"/caf%C3%A9/a.txt", b"/caf%C3%A9/%E9%A1%B5.html", b"/static", b"/"]
REQUEST_TARGETS = ("accessors", "reqbody")

WEIGHTS = {
    "accessors": {"path": 6, "query": 6, "h:host": 6, "h:cookie": 4, "h:accept": 4, "h:content-type": 4, "h:content-length": 4, "h:date": 4,
                  "h:referer": 6, "h:*": 1, "body": 0, "part": 0},
    "json": {"body": 12, "h:content-type": 8, "h:content-length": 2, "h:*": 1, "path": 1, "query": 1},
    "urlenc": {"body": 10, "h:content-type": 10, "h:content-length": 2, "h:*": 1, "path": 1, "query": 1},
    "mp": {"body": 8, "part": 12, "h:content-type": 8, "h:content-length": 2, "h:*": 1, "path": 1, "query": 1},
    "raw": {"body": 6, "h:content-type": 6, "h:content-length": 6, "h:*": 1, "path": 1, "query": 1},
    "fileresponse": {"h:range": 14, "h:if-range": 5, "h:*": 1, "path": 1, "query": 1},
    "router": {"path": 16, "query": 1, "h:*": 1},
    "subpaths": {"path": 14, "h:*": 1},
    "hosts": {"h:host": 12, "path": 4, "h:*": 1},
    "nested": {"path": 14, "h:host": 1, "h:*": 1},
    "files": {"path": 12, "h:if-none-match": 4, "h:if-modified-since": 4, "h:host": 1, "h:*": 1},
    "pages": {"path": 12, "h:if-none-match": 3, "h:if-modified-since": 3, "h:host": 4, "h:*": 1},
}

URL_COMPONENTS = ("scheme", "netloc", "path", "query", "fragment", "username", "password", "hostname", "port")


def _items(x):
    return None if x is None else [(k, str(v)) for k, v in x.items()]


ACCESSORS = [
    ("method", lambda r: r.method),
    ("url", lambda r: str(r.url)),
    ("query_params", lambda r: r.query_params.multi_items()),
    ("headers", lambda r: list(r.headers.items())),
    ("cookies", lambda r: dict(r.cookies)),
    ("accepted_types", lambda r: [str(m) for m in r.accepted_types]),
    ("accepts", lambda r: (r.accepts("application/json"), r.accepts("text/html"), r.accepts("image/*"))),
    ("content_type", lambda r: (str(r.content_type), r.content_type == "application/json", dict(r.content_type.options))),
    ("content_length", lambda r: r.content_length),
    ("date", lambda r: r.date),
    ("referrer", lambda r: None if r.referrer is None else str(r.referrer)),
    ("client", lambda r: tuple(r.client)),
    ("path_params", lambda r: dict(r.path_params)),
]

_ADDR = re.compile(r"0x[0-9a-fA-F]{4,}")


def _abbr(b, n=220):
    b = bytes(b).replace(tr.DIGITS, b"<5000 digits>").replace(tr.NEST, b"<'['*2000>").replace(tr.MANY, b"<'&k=v'*1500>")
    s = b.decode("latin-1")
    if len(s) > n:
        s = s[: n - 40] + "...(%d bytes)..." % len(b) + s[-30:]
    return repr(s)


class C12(Prop):
    id = "C12"
    level = "exploration"
    rule = ("one run = one valid request for one target (request accessors | body/json/form/stream | FileResponse | Router | Subpaths | "
            "Hosts | Files | Pages) on one interface, serialised to HTTP/1.1 wire bytes, corrupted by 1..3 faults "
            "(truncate, bit flip, drop / duplicate / swap a span, dictionary splice; field chosen first, then a position in it), parsed "
            "by a tolerant server front-end and, unless the front-end refuses it, run on baize with seeded body chunking / short reads; "
            "non-trivial = at least one fault changed the wire; distinct = distinct SHA-1 of the fault coordinates plus the "
            "delivery/emission event sequence")
    assumptions = ("the front-end hands baize only what real servers pass on: header values are Latin-1 without NUL/CR/LF/VT/FF and without "
                   "surrounding SP/HTAB, header names are tokens, ASGI targets are ASCII (uvicorn/daphne/hypercorn decode the raw path as "
                   "ASCII) and scope['path'] = unquote(raw_path) (invalid UTF-8 -> U+FFFD), WSGI PATH_INFO / QUERY_STRING are Latin-1 decoded bytes",
                   "ASGI servers refuse a non-numeric or conflicting Content-Length; tolerant WSGI servers (wsgiref) pass the raw string on",
                   "the server delivers min(declared, available) body bytes; a body shorter than declared ends in http.disconnect (ASGI) or EOF (WSGI)",
                   "in half of the runs that have a body the corruption is applied at the source: Content-Length is recomputed from the corrupted body (unless that header itself was damaged)",
                   "Subpaths and Hosts mount plain endpoints, so a Router / Files / Pages failure is reported once, under its own target; request.close() is not called after a form access that already escaped",
                   "a head larger than 16 KiB is refused by the front-end (h11 default)",
                   "ClientDisconnect is accepted whenever it is raised (its exact conditions are C10's business)",
                   "the raw-noise-over-every-header part of the quantifier is covered only as far as the corruption faults reach")
    components = {"real": ["baize.asgi.Request / baize.wsgi.Request and every accessor of baize.requests.MoreInfoFromHeaderMixin", "baize.datastructures.URL/QueryParams/Headers/MediaType/ContentType",
                           "baize.multipart*, FormData, UploadFile", "FileResponse (both interfaces) incl. parse_range / judge_if_range", "Router / Subpaths / Hosts and all convertors",
                           "Files / Pages (both interfaces) over real files", "request_response, PlainTextResponse, RedirectResponse"],
                  "stub": ["HTTP/1.1 server front-end (sim/transport.py)", "ASGI server receive()/send() (AsgiHttpPeer) on SimLoop", "WSGI server / wsgi.input with short reads (WsgiPeer)",
                           "os.stat metadata overlay of SimFS (contents are real files)"]}
    hard_probes = ("splice", "bitflip", "drop", "dup", "swap", "truncate", "frontend_rejected", "frontend_accepted", "iface_asgi", "iface_wsgi",
                   "outcome_value", "outcome_response", "outcome_http_4xx", "outcome_disconnect", "body_shorter_than_declared",
                   "field_path", "field_query", "field_header", "field_body", "field_part", "fault_free_run",
                   "corrupted_at_source_content_length_recomputed") + tuple("target_" + n for _, n in TARGETS)
    quick_runs = 400000
    thorough_runs = 6000000
    batch = 1000

    # -----------------------------------------------------------------------------------------
    def setup(self, workdir):
        self.workdir = workdir
        self.fs = simfs.install(os.path.join(workdir, "fs"))
        for i, (rel, data) in enumerate(TREE):
            self.fs.write(rel, data, mtime=MTIME + i, ctime=MTIME + i)
        self.root = self.fs.root
        import baize
        self.baize_dir = os.path.dirname(os.path.abspath(baize.__file__)) + os.sep
        self.apps = {"asgi": self._build_apps("asgi"), "wsgi": self._build_apps("wsgi")}

    def _build_apps(self, iface):
        def show(params):
            return repr(sorted((str(k), str(v)) for k, v in params.items()))

        if iface == "asgi":
            import baize.asgi as M

            @M.request_response
            async def endpoint(request):
                return M.PlainTextResponse(show(request.path_params))
        else:
            import baize.wsgi as M

            @M.request_response
            def endpoint(request):
                return M.PlainTextResponse(show(request.path_params))
        files = M.Files(self.root)
        pages = M.Pages(self.root)
        files404 = M.Files(self.root, handle_404=M.PlainTextResponse("no such file", 404))
        router = M.Router(("/", endpoint), ("/str/{name}", endpoint), ("/int/{n:int}", endpoint), ("/dec/{d:decimal}", endpoint),
                          ("/uuid/{u:uuid}", endpoint), ("/date/{day:date}", endpoint), ("/any/{rest:any}", endpoint),
                          ("/users/{uid:int}/posts/{day:date}", endpoint))
        # Subpaths / Hosts mount plain endpoints only: a failure of Router or Files is reported under its own target
        subpaths = M.Subpaths(("/api/v1", endpoint), ("/api", endpoint), ("/static", endpoint), ("/pages", endpoint))
        hosts = M.Hosts((r"static\.example\.com(:\d+)?", endpoint), (r"api\.example\.com(:\d+)?", endpoint),
                        (r"(www\.)?example\.com(:\d+)?", endpoint), (r"\[::1\](:\d+)?|127\.0\.0\.1(:\d+)?", endpoint))
        nested = M.Subpaths(("/static", files), ("/pages", pages), ("/api", router), ("/caf\u00e9", files404))
        return {"M": M, "router": router, "subpaths": subpaths, "hosts": hosts, "files": files, "files404": files404, "pages": pages, "nested": nested}

    # -----------------------------------------------------------------------------------------
    # plan
    # -----------------------------------------------------------------------------------------
    def _headers(self, t, host=None, always=()):
        hs = [("Host", host or t.choice(HOSTS))]
        for name, pool in (("User-Agent", ["sim/1.0"]), ("Accept", ACCEPTS), ("Cookie", COOKIES), ("Date", DATES), ("Referer", REFERERS)):
            if name in always or t.draw(3) == 0:
                hs.append((name, t.choice(pool)))
        return hs

    def _conditional(self, t, rel, hs, p_range=2):
        if rel not in SIZES:
            rel = "a.txt"
        if p_range and t.draw(p_range) == 0:
            hs.append(("Range", t.choice(RANGES)))
            k = t.draw(4)
            if k == 1:
                hs.append(("If-Range", '"%s"' % _etag(rel)))
            elif k == 2:
                hs.append(("If-Range", formatdate(_mtime(rel), usegmt=True)))
            elif k == 3:
                hs.append(("If-Range", t.choice(['"stale"', "Wed, 21 Oct 2015 07:28:00 GMT"] + DATES[3:])))
        k = t.draw(5)
        if k == 1:
            hs.append(("If-None-Match", t.choice(['"%s"' % _etag(rel), 'W/"%s"' % _etag(rel), '"x", "%s"' % _etag(rel), "*", '"nope"'])))
        elif k == 2:
            hs.append(("If-Modified-Since", t.choice([formatdate(_mtime(rel), usegmt=True), formatdate(_mtime(rel) - 86400, usegmt=True),
                                                      "Wed, 21 Oct 2065 07:28:00 GMT"] + DATES[3:])))

    def _body(self, t, bkind):
        """-> (body, content type, part spans)"""
        if bkind == "json":
            body = json.dumps(t.choice(JSON_VALUES), ensure_ascii=bool(t.draw(2))).encode("utf-8")
            return body, t.choice(["application/json", "application/json; charset=utf-8", "application/json;charset=UTF-8"]), ()
        if bkind == "urlenc":
            # the client chooses the charset label: exotic but existing codecs are part of "unknown charsets"
            return t.choice(URLENC), t.choice(["application/x-www-form-urlencoded", "application/x-www-form-urlencoded; charset=utf-8",
                                               "application/x-www-form-urlencoded;charset=latin-1", "application/x-www-form-urlencoded; charset=idna",
                                               "application/x-www-form-urlencoded; charset=punycode", "application/x-www-form-urlencoded; charset=utf-7"]), ()
        if bkind == "mp":
            form = mpm.gen_form(t, max_parts=3, file_bias=2, allow_pre_epi=False)
            if not form["parts"]:
                form["parts"].append({"kind": "field", "name": "f", "content": b"v", "extra": None})
            body, spans = tr.encode_form_spans(form)
            return body, mpm.content_type_header(form, charset=t.choice([None, None, "utf-8"])), spans
        return t.bytes_of(t.draw(24)), t.choice(["application/octet-stream", "text/plain; charset=utf-8"]), ()

    def gen_plan(self, t):
        iface = t.choice(["asgi", "wsgi"])
        if t.draw(120) == 0:
            # a long HISTORY of requests against one Router / Files instance (fresh objects for this run): misses asked
            # twice, hundreds of distinct paths, then ordinary matching requests - per-object state must not turn a
            # later well-formed request into an error
            n = t.choice([40, 300, 300, 600])
            return {"zone": "UTC", "iface": iface, "target": "history", "n": n, "salt": t.draw(1000), "faults": [], "wire": b"GET /history HTTP/1.1\r\n\r\n",
                    "ops": None, "file": None, "bkind": None, "valid_len": 0}
        target = t.weighted(TARGETS)
        method, path, query, body, spans = "GET", b"/", None, b"", ()
        ops, rel, wkey, bkind = None, None, target, None
        if target == "accessors":
            path, query = t.choice(PATHS), t.choice(QUERIES)
            hs = self._headers(t, always=("Accept", "Cookie", "Date", "Referer"))
            if t.draw(2):
                method = "POST"
                bkind = t.choice(["json", "urlenc", "raw"])
                body, ct, spans = self._body(t, bkind)
                hs += [("Content-Type", ct), ("Content-Length", str(len(body)))]
        elif target == "reqbody":
            method = t.choice(["POST", "POST", "PUT"])
            path, query = t.choice(PATHS), t.choice(QUERIES[:3])
            bkind = t.weighted([(4, "json"), (3, "urlenc"), (5, "mp"), (1, "raw")])
            wkey = bkind
            body, ct, spans = self._body(t, bkind)
            hs = self._headers(t) + [("Content-Type", ct), ("Content-Length", str(len(body)))]
            first = {"json": "json", "urlenc": "form", "mp": "form", "raw": t.choice(["body", "stream"])}[bkind]
            ops = [first if t.draw(5) else t.choice(["body", "json", "form", "stream"])]
            if t.draw(3) == 0:
                ops.append(t.choice(["body", "json", "form", "stream"]))
        elif target == "fileresponse":
            method = t.choice(["GET", "GET", "HEAD"])
            rel = t.choice(["a.txt", "a.txt", "big.bin", "empty.bin"])
            path = b"/download"
            hs = self._headers(t)
            self._conditional(t, rel, hs, p_range=1)
        elif target == "router":
            path, query = t.choice(ROUTER_PATHS), t.choice(QUERIES[:3])
            hs = self._headers(t)
        elif target == "subpaths":
            path = t.choice(SUBPATHS_PATHS)
            hs = self._headers(t)
        elif target == "hosts":
            path = t.choice([b"/", b"/a.txt", b"/int/3", b"/x"])
            hs = self._headers(t)
        elif target == "nested":
            path = t.choice(NESTED_PATHS)
            hs = self._headers(t)
        elif target in ("files", "pages"):
            method = t.choice(["GET", "GET", "GET", "HEAD"])
            path = t.choice(STATIC_PATHS if target == "files" else PAGES_PATHS)
            hs = self._headers(t)
            self._conditional(t, path.decode("ascii").lstrip("/"), hs, p_range=0)
            if target == "files" and t.draw(4) == 0:
                rel = "404app"          # the Files instance that has a handle_404 application
        wire, fields = tr.serialise(method, path, query, hs, body, spans)
        at_source = False
        if t.draw(16) == 0:
            cwire, faults = wire, []            # fault-free run: the valid request itself
        else:
            cwire, faults = tr.corrupt(t, wire, fields, WEIGHTS[wkey])
            # where the corruption happens: in flight (Content-Length stays as sent and may now disagree with the
            # body) or at the source (a hostile / broken client frames its own bytes: Content-Length is recomputed)
            if body and t.draw(2):
                fixed = tr.reframe(cwire)
                at_source = fixed is not None
                if at_source:
                    cwire = fixed
        return {"zone": t.choice(ZONES), "iface": iface, "target": target, "ops": ops, "file": rel, "bkind": bkind, "valid_len": len(wire), "faults": faults,
                "at_source": at_source, "wire": cwire}

    def describe(self, plan, variant=None):
        d = dict(plan)
        d["faults"] = [dict(f, arg=(tr.payload_name(f["arg"]) if f["kind"] == "splice" and f["arg"] is not None else f["arg"])) for f in plan["faults"]]
        return {"plan": jsonable(d)}

    def nontrivial(self, plan, ctx, variant):
        return bool(ctx.faults)

    # -----------------------------------------------------------------------------------------
    # oracle
    # -----------------------------------------------------------------------------------------
    def _where(self, exc):
        """(innermost baize function in the traceback, file of the innermost frame)"""
        tb = exc.__traceback__
        name, last = None, None
        while tb is not None:
            code = tb.tb_frame.f_code
            fn = code.co_filename
            if fn.startswith(self.baize_dir):
                name = getattr(code, "co_qualname", None) or code.co_name
            last = fn
            tb = tb.tb_next
        return name, last

    def _example(self, plan):
        wire = plan["wire"]
        m = re.search(rb"\n\r?\n", wire)
        head = wire if m is None else wire[:m.start()]
        body = b"" if m is None else wire[m.end():]
        fl = ", ".join("%s@%s+%d%s" % (f["kind"], f["field"], f["at"], ("=" + tr.payload_name(f["arg"])) if f["kind"] == "splice" and f["arg"] is not None else "")
                       for f in plan["faults"] if f["fired"])
        lines = [ln.rstrip(b"\r") for ln in head.split(b"\n")]
        hit = {f["field"][2:] for f in plan["faults"] if f["field"] and f["field"].startswith("h:")}
        keep = [lines[0]] + [ln for ln in lines[1:] if ln.split(b":")[0].lower().decode("latin-1") in hit | {"content-type", "host", "range"}]
        return "faults[%s] request %s%s" % (fl, " | ".join(_abbr(ln, 150) for ln in keep[:6]), (" body " + _abbr(body, 160)) if body else "")

    def _scrub(self, s):
        return _ADDR.sub("0x?", s.replace(self.root, "<fsroot>"))

    def _judge(self, ctx, plan, entry, exc):
        """Classify the exception that left an entry point (None = it returned)."""
        from baize.asgi import ClientDisconnect
        from baize.exceptions import HTTPException

        iface = plan["iface"]
        if exc is None:
            return "ok"
        # a cached failed access (ASGI cached_property future) re-raises the very same exception object, then
        # without its original traceback: it is the same outcome as before, not a new one
        seen = ctx.notes.setdefault("seen_exc", [])
        for old, res in seen:
            if old is exc:
                ctx.ev("out", entry, "repeat", res)
                return res
        res = self._judge_new(ctx, plan, entry, exc, iface, HTTPException, ClientDisconnect)
        seen.append((exc, res))
        return res

    def _judge_new(self, ctx, plan, entry, exc, iface, HTTPException, ClientDisconnect):
        if isinstance(exc, HTTPException):
            sc = exc.status_code
            if isinstance(sc, int) and not isinstance(sc, bool) and 400 <= sc < 500:
                ctx.probe("outcome_http_4xx")
                ctx.ev("out", entry, "http", sc)
                return "http"
            ctx.violate("C12|%s|%s|HTTPException-status-%s|%s" % (iface, entry, sc, self._where(exc)[0]),
                        "HTTPException with status %r is not a 4xx; %s" % (sc, self._example(plan)))
            return "bad"
        if isinstance(exc, ClientDisconnect):
            ctx.probe("outcome_disconnect")
            ctx.ev("out", entry, "disconnect")
            return "disc"
        if type(exc) is RuntimeError and "Stream consumed" in str(exc):
            ctx.probe("outcome_stream_consumed")
            ctx.ev("out", entry, "consumed")
            return "consumed"
        name, last = self._where(exc)
        if name is None or (last is not None and os.path.abspath(last) == os.path.abspath(__file__)):
            import traceback
            raise HarnessError("exception without a baize frame / raised by the harness itself in entry %s: %s" %
                               (entry, "".join(traceback.format_exception(type(exc), exc, exc.__traceback__))[-1500:]))
        ctx.ev("out", entry, "escape", type(exc).__name__, name)
        ctx.violate("C12|%s|%s|%s|%s" % (iface, entry, type(exc).__name__, name),
                    "%s: %s escaped from %s; %s" % (type(exc).__name__, self._scrub(str(exc))[:200], name, self._example(plan)))
        return "bad"

    def _response(self, ctx, plan, entry, status):
        iface = plan["iface"]
        ctx.ev("out", entry, "response", status if isinstance(status, int) else repr(status))
        if isinstance(status, int) and status >= 500:
            ctx.violate("C12|%s|%s|status-5xx|%s" % (iface, entry, status), "baize answered %s; %s" % (status, self._example(plan)))
        else:
            ctx.probe("outcome_response")
            if isinstance(status, int) and 400 <= status < 500:
                ctx.probe("response_4xx")

    # -----------------------------------------------------------------------------------------
    # execute
    # -----------------------------------------------------------------------------------------
    def execute(self, plan, ctx, variant=None):
        # the process time zone is part of the configuration: naive dates in headers are interpreted in it
        from ..simclock import SimClock, installed
        zone = plan.get("zone", "UTC")
        if zone != "UTC":
            ctx.fault("tz_non_utc")
        with installed(SimClock(1_700_000_000.25), zone):
            self._execute(plan, ctx, variant)

    def _execute(self, plan, ctx, variant=None):
        iface, target = plan["iface"], plan["target"]
        if target == "history":
            return self._history(plan, ctx)
        ctx.actors = 1
        ctx.probe("iface_" + iface)
        ctx.probe("target_" + target)
        fired = 0
        for f in plan["faults"]:
            if f["fired"]:
                fired += 1
                ctx.fault(f["kind"])
                ctx.sch("fault", f["kind"], f["field"], f["at"], f["n"], f["arg"])
                fld = f["field"]
                ctx.probe("field_" + ("header" if fld.startswith("h:") else fld))
        if not plan["faults"]:
            ctx.probe("fault_free_run")
        if plan["at_source"]:
            ctx.probe("corrupted_at_source_content_length_recomputed")
            ctx.sch("reframed")
        try:
            fe = tr.frontend(plan["wire"], iface)
        except tr.Rejected as r:
            ctx.probe("frontend_rejected")
            ctx.probe("rejected_" + r.reason)
            ctx.ev("fe", "rejected", r.reason)
            return
        ctx.probe("frontend_accepted")
        if fe.short:
            ctx.probe("body_shorter_than_declared")
        elif fe.declared is not None and fe.declared < len(fe.available):
            ctx.probe("body_cut_by_content_length")
        if fe.garbage_cl:
            ctx.probe("wsgi_raw_content_length_passed_on")
        ctx.ev("fe", fe.method, len(fe.raw_path), len(fe.query_bytes), len(fe.raw_headers), len(fe.body), fe.short)
        before = len(ctx.violations)
        if iface == "asgi":
            self._asgi(plan, ctx, fe)
        else:
            self._wsgi(plan, ctx, fe)
        if not plan["faults"]:
            ctx.probe("fault_free_clean" if len(ctx.violations) == before else "fault_free_violation")

    def _history(self, plan, ctx):
        from ..httpreq import AbstractRequest
        iface = plan["iface"]
        ctx.actors = 1
        ctx.probe("iface_" + iface)
        ctx.probe("target_history")
        ctx.fault("long_request_history")
        apps = self._build_apps(iface)          # fresh objects: the history starts from nothing
        n, salt = plan["n"], plan["salt"]
        seq = [("router", "/nope-%d" % salt), ("router", "/nope-%d" % salt), ("files", "/missing-%d.txt" % salt), ("files", "/missing-%d.txt" % salt)]
        seq += [("router", "/x%d-%d" % (salt, i)) if i % 3 else ("files", "/f%d-%d.txt" % (salt, i)) for i in range(n)]
        seq += [("router", "/nope-%d" % salt), ("router", "/int/42"), ("router", "/str/hello"), ("router", "/"), ("files", "/a.txt"), ("files", "/missing-%d.txt" % salt),
                ("router", "/date/2021-03-04"), ("files", "/sub/b.txt")]
        results = []

        def req(path):
            return AbstractRequest("GET", path, headers=[("host", "example.com")], body=b"")

        if iface == "wsgi":
            for k, (which, path) in enumerate(seq):
                peer = WsgiPeer(ctx, ctx.sched, req(path), short_reads=False, surface="wsgi")
                peer.run(apps[which])
                results.append((k, which, path, peer.status, peer.exc or peer.close_exc))
        else:
            async def scenario(loop):
                for k, (which, path) in enumerate(seq):
                    peer = AsgiHttpPeer(loop, ctx, ctx.sched, req(path), send_lats=(0.0,), surface="asgi")
                    exc = None
                    try:
                        await apps[which](peer.scope, peer.receive, peer.send)
                    except (SimDeadlock, SimTimeLimit, SimStepLimit):
                        raise
                    except Exception as e:  # noqa
                        exc = e
                    results.append((k, which, path, peer.status, exc))

            try:
                run_sim(scenario, ctx.sched, ctx, vcap=600.0, step_cap=2_000_000)
            except (SimDeadlock, SimTimeLimit, SimStepLimit) as e:
                ctx.violate("C12|%s|history|hang|%s" % (iface, type(e).__name__), str(e))
                return
        expect_ok = {"/int/42", "/str/hello", "/", "/a.txt", "/date/2021-03-04", "/sub/b.txt"}
        for k, which, path, status, exc in results:
            if exc is not None:
                plan2 = dict(plan, wire=("GET %s HTTP/1.1 (request %d of a history of %d on one %s instance)\r\n\r\n" % (path, k + 1, len(seq), which)).encode())
                self._judge(ctx, plan2, "history-" + which, exc)
            elif isinstance(status, int) and status >= 500:
                ctx.violate("C12|%s|history-%s|status-5xx|%s" % (iface, which, status), "request %d (%s)" % (k + 1, path))
            elif path in expect_ok and status != 200:
                ctx.violate("C12|%s|history-%s|well-formed-request-refused|%s" % (iface, which, status), "request %d (%s) of the history answered %s" % (k + 1, path, status))
        ctx.ev("history", len(results), [r[3] for r in results[-8:]])

    def _app(self, plan):
        iface, target = plan["iface"], plan["target"]
        if target == "fileresponse":
            M = self.apps[iface]["M"]
            return M.FileResponse(self.fs.path(plan["file"]))
        if target == "files" and plan["file"] == "404app":
            return self.apps[iface]["files404"]
        return self.apps[iface][target]

    # ======================= ASGI =======================
    def _asgi(self, plan, ctx, fe):
        import asyncio

        from baize.asgi import Request
        from baize.datastructures import UploadFile

        target = plan["target"]
        sched = ctx.sched
        nb = len(fe.body)
        cuts = [sched.draw(nb + 1) for _ in range(sched.draw(4))] if nb > 1 else []
        script = fe.script(cuts)
        # OPTIONAL message keys: "body" defaults to b"", "more_body" to False - a server may leave them out
        if sched.draw(4) == 0:
            for m in script:
                om = set()
                if m["type"] == "http.request" and not m.get("body"):
                    om.add("body")
                if m["type"] == "http.request" and not m.get("more_body"):
                    om.add("more_body")
                if om:
                    m["omit"] = om
                    ctx.probe("asgi_message_without_optional_keys")
            if script and script[-1]["type"] == "http.request" and script[-1].get("body") and not script[-1].get("more_body") and sched.draw(2):
                # ... or send the body and then a bare final event
                script[-1]["more_body"] = True
                script.append({"type": "http.request", "body": b"", "more_body": False, "delay": 0.0, "omit": {"body", "more_body"}})
        if len(script) > 1:
            ctx.sch("chunks", tuple(len(m.get("body", b"")) for m in script))
        state = {"entry": target}

        def guard(e):
            if isinstance(e, (asyncio.CancelledError, SimDeadlock, SimTimeLimit, SimStepLimit, HarnessError, KeyboardInterrupt, SystemExit)):
                raise e

        # the endpoint works under a deadline (asyncio.wait_for) and the client stalls before its last message
        deadline = target == "reqbody" and len(script) >= 1 and sched.draw(6) == 0
        if deadline:
            ctx.fault("client_stalls_endpoint_deadline")
            script[-1]["delay"] = 30.0

        async def scenario(loop):
            peer = AsgiHttpPeer(loop, ctx, sched, fe, script, send_lats=(0.0,), recv_lat_extra=(0.0, 0.0, 0.01), surface="asgi")
            if target == "accessors":
                self._accessors(plan, ctx, Request(peer.scope, peer.receive, peer.send), state)
            elif target == "reqbody":
                req = Request(peer.scope, peer.receive, peer.send)
                n_viol = len(ctx.violations)

                async def do(op):
                    if op == "body":
                        return len(await req.body)
                    if op == "json":
                        await req.json
                        return 0
                    if op == "stream":
                        n = 0
                        async for c in req.stream():
                            n += len(c)
                        return n
                    form = await req.form
                    n = 0
                    for _, v in form.multi_items():
                        if isinstance(v, UploadFile):
                            n += len(await v.aread())
                            ctx.probe("upload_read")
                    return n

                for op in plan["ops"]:
                    state["entry"] = op
                    exc = None
                    try:
                        if deadline:
                            try:
                                n = await asyncio.wait_for(do(op), 1.0)
                            except asyncio.TimeoutError:
                                ctx.probe("endpoint_deadline_hit")
                                ctx.ev("out", op, "deadline")
                                break           # the endpoint gives up (what a repeated access then sees is C10's subject); it still closes the request
                        else:
                            n = await do(op)
                    except BaseException as e:  # noqa
                        guard(e)
                        exc = e
                    if self._judge(ctx, plan, op, exc) == "ok":
                        ctx.probe("outcome_value")
                        ctx.ev("out", op, "value", n)
                if len(ctx.violations) == n_viol:       # (a form that escaped has nothing to close and would re-raise the same error)
                    state["entry"] = "close"
                    try:
                        await req.close()
                    except asyncio.CancelledError as e:
                        if not deadline or asyncio.current_task().cancelling():
                            raise
                        # nobody cancelled close(): the cancellation of the abandoned accessor leaked out of it
                        ctx.violate("C12|asgi|close|CancelledError|Request.close", "close() after an accessor abandoned at the endpoint's deadline raised %r; %s" % (e, self._example(plan)))
                    except BaseException as e:  # noqa
                        guard(e)
                        self._judge(ctx, plan, "close", e)
            else:
                exc = None
                try:
                    app = self._app(plan)
                    await app(peer.scope, peer.receive, peer.send)
                except BaseException as e:  # noqa
                    guard(e)
                    exc = e
                if self._judge(ctx, plan, target, exc) == "ok":
                    self._response(ctx, plan, target, peer.status)
            return None

        try:
            run_sim(scenario, sched, ctx, vcap=600.0, step_cap=50000)
        except (SimDeadlock, SimTimeLimit, SimStepLimit) as e:
            ctx.ev("out", state["entry"], "hang", type(e).__name__)
            ctx.violate("C12|asgi|%s|hang|%s" % (state["entry"], type(e).__name__), "the entry point never completed: %s; %s" % (e, self._example(plan)))

    # ======================= WSGI =======================
    def _wsgi(self, plan, ctx, fe):
        from baize.datastructures import UploadFile
        from baize.wsgi import Request

        target = plan["target"]
        peer = WsgiPeer(ctx, ctx.sched, fe, short_reads=True, surface="wsgi")
        state = {"entry": target}
        if target == "accessors":
            self._accessors(plan, ctx, Request(peer.environ), state)
        elif target == "reqbody":
            req = Request(peer.environ)
            n_viol = len(ctx.violations)
            for op in plan["ops"]:
                exc = None
                try:
                    if op == "body":
                        n = len(req.body)
                    elif op == "json":
                        req.json
                        n = 0
                    elif op == "stream":
                        n = 0
                        for c in req.stream():
                            n += len(c)
                    else:
                        form = req.form
                        n = 0
                        for _, v in form.multi_items():
                            if isinstance(v, UploadFile):
                                n += len(v.read())
                                ctx.probe("upload_read")
                except Exception as e:  # noqa
                    if isinstance(e, HarnessError):
                        raise
                    exc = e
                if self._judge(ctx, plan, op, exc) == "ok":
                    ctx.probe("outcome_value")
                    ctx.ev("out", op, "value", n)
            if len(ctx.violations) == n_viol:
                try:
                    req.close()
                except Exception as e:  # noqa
                    if isinstance(e, HarnessError):
                        raise
                    self._judge(ctx, plan, "close", e)
        else:
            exc = None
            try:
                app = self._app(plan)
            except Exception as e:  # noqa
                exc = e
            else:
                peer.run(app)
                exc = peer.exc or peer.close_exc
            if self._judge(ctx, plan, target, exc) == "ok":
                self._response(ctx, plan, target, peer.status)

    # ======================= accessors (same code for both interfaces) =======================
    def _accessors(self, plan, ctx, req, state):
        def run(entry, fn):
            state["entry"] = entry
            exc = None
            try:
                fn(req)
            except Exception as e:  # noqa
                if isinstance(e, HarnessError):
                    raise
                exc = e
            r = self._judge(ctx, plan, entry, exc)
            if r == "ok":
                ctx.probe("outcome_value")
            return r

        n_ok = 0
        for entry, fn in ACCESSORS:
            r = run(entry, fn)
            n_ok += r == "ok"
            if r == "ok" and entry in ("url", "referrer"):
                # the components of a URL value that was built from attacker bytes
                if entry == "referrer" and req.referrer is None:
                    continue
                for comp in URL_COMPONENTS:
                    n_ok += run("%s.%s" % (entry, comp), lambda r_, c=comp, e=entry: getattr(getattr(r_, e), c)) == "ok"
        ctx.ev("out", "accessors", "values", n_ok)


PROP = C12
