"""C06 - streaming responses always terminate and release the producer.

Surfaces: ASGI StreamResponse / SendEventResponse under SimLoop, WSGI SendEventResponse
under SimThreads (real threads, baton passing, line pre-emption), WSGI StreamResponse
under SimWSGI.  fault_enumeration: for each generated scenario the fault-free run gives
N emission points; the scenario is re-run with the disconnect / close placed at every one
of them (plus seeded instants between items on ASGI).
"""
import asyncio

from ..asgi_peer import InjectedReceiveError, AsgiHttpPeer, ClientGone, InjectedSendError
from ..core import Prop
from ..httpreq import AbstractRequest
from ..loop import SimDeadlock, SimStepLimit, SimTimeLimit, run_sim
from ..wsgi_peer import WsgiPeer

L_SETS = {"fast": (0.0,), "mixed": (0.0, 0.0, 0.0, 0.2, 1.0), "slow": (0.2, 1.0)}
PREEMPT = [(0, 1), (1, 20), (1, 5), (1, 2)]


class Boom(Exception):
    pass


class SpuriousCancel(Exception):
    pass


class CleanupError(Exception):
    pass


def delay_set(P):
    e = 0.001
    return (0.0, 0.0, e, P / 2, P - e, P, P + e, 2 * P, 3 * P + e)


class C06(Prop):
    id = "C06"
    level = "fault_enumeration"
    rule = ("one seed = one scenario (surface, producer length 0..5, per-item delays aligned to the ping interval, optional "
            "producer exception, slow cleanup, send/consumer latencies, server flavour, iterable kind, pre-emption rate) run "
            "fault-free and then once per disconnect/close point: after every emission of the fault-free run and at seeded "
            "instants between items, and (ASGI) once per send() call with that call raising; evaluations = executions; non-trivial = a fault fired (disconnect, early close, "
            "back-pressure, raising send, pre-emption) ; distinct = distinct SHA-1 of the scheduling-event sequence (which "
            "thread/task ran, queue put/get, send/recv with virtual time)")
    assumptions = ("time bounds are in virtual time with explicit slack (2-3 x max send latency); the primary signal is 'never returns'",
                   "the cleanup marker is the first statement of the producer's finally; awaiting cleanup code may be cut short by asyncio cancellation",
                   "thread pre-emption happens at line granularity inside baize/wsgi/responses.py and baize/concurrency.py and at every stub call")
    components = {"real": ["baize.asgi.responses.StreamingResponse/StreamResponse/SendEventResponse", "baize.wsgi.responses.StreamResponse/SendEventResponse",
                           "baize.concurrency.ThreadPoolExecutor.submit", "asyncio.Queue/wait_for/tasks/async generators (CPython 3.12)", "user generators"],
                  "stub": ["event-loop selector/clock", "ASGI server", "WSGI server", "queue.Queue blocking", "pool executor -> simulated thread",
                           "Future.result/exception waiting", "time.sleep/time"]}
    hard_probes = ("disconnect", "server_close_early", "disconnect_at_instant", "pool_at_capacity_item_queued", "wsgi_sse_close_while_relay_alive", "asgi_sse_ping_sent", "send_backpressure", "send_raises", "pool_saturated", "cleanup_raises", "wsgi_sse_two_streams")
    quick_runs = 25000
    thorough_runs = 400000
    quick_wall = 50.0
    batch = 50

    def setup(self, workdir):
        self.workdir = workdir

    # -- plan ----------------------------------------------------------------
    def gen_plan(self, t):
        surface = t.weighted([(3, "asgi-sse"), (2, "asgi-stream"), (4, "wsgi-sse"), (1, "wsgi-stream")])
        P = t.choice([1.0, 2.0])
        n = t.draw(6)
        ds = delay_set(P)
        plan = {
            "surface": surface, "P": P, "n": n,
            "delays": [t.choice(ds) for _ in range(n)],
            "end_delay": t.choice((0.0, 0.0, P + 0.001)),
            "boom_at": None if t.draw(4) else t.draw(n + 1),
            "cdelay": t.choice((0.0, 0.0, 0.3)) if surface.startswith("asgi") else 0.0,
            "lat": t.choice(["mixed", "fast", "mixed", "slow"]),
            "raising": t.draw(3) == 0,
            "iter_kind": t.weighted([(6, "gen"), (2, "iter"), (2, "iter-aclose"), (1, "outer-aclose")]),
            # (ASGI) the request method: a HEAD request reaches the same streaming endpoint
            "head": t.draw(8) == 0,
            # the producer waits for its next item in a blocking call handed to the thread pool (run_in_threadpool) instead of asyncio.sleep
            "bridge": surface.startswith("asgi") and t.draw(6) == 0,
            "time_fracs": [t.draw(1000) / 1000.0 for _ in range(2)],
            # the user's cleanup code itself fails (after the marker): the response must still release everything
            "cleanup_raises": t.draw(8) == 0,
            # (ASGI) the receive channel offers the request and nothing else: asking again raises (no disconnect notification)
            "recv_raises": surface.startswith("asgi") and t.draw(10) == 0,
            # (ASGI) the request has a body nobody reads; it arrives in this many http.request messages, the later ones after a while
            "req_msgs": t.choice((1, 1, 1, 2, 3)), "req_gap": t.choice((0.0, 0.0, 0.3)),
            # (ASGI) loop iterations take (virtual) time: a timer may fall due between callbacks that became ready at one instant
            "tick": t.draw(2) == 0,
            # (ASGI) the stream answers a refused WebSocket handshake: WebsocketDenialResponse(StreamResponse / SendEventResponse)
            # on a websocket scope of a server offering the websocket.http.response extension; the peer leaving is a websocket.disconnect
            "via_denial": surface.startswith("asgi") and t.draw(8) == 0,
            # (byte streams) some steps of the producer yield b"" - a heartbeat that gives the response a chance to look at the client
            "empty_items": [i for i in range(n) if t.draw(4) == 0] if surface.endswith("stream") and t.draw(3) == 0 else [],
        }
        # the producer object fails when asked for its iterator (__iter__ / __aiter__ raises): the producer's own exception, before any item
        plan["iter_fails"] = plan["iter_kind"] != "gen" and t.draw(8) == 0
        if plan["iter_fails"]:
            plan["boom_at"] = 0
        if surface == "wsgi-sse":
            plan["preempt"] = t.choice(PREEMPT)
            plan["cdelays"] = [t.choice((0.0, 0.0, 0.001, P / 2, P, P + 0.001)) for _ in range(8)]
            plan["pool_delay"] = t.choice((0.0, 0.0, 0.0, P / 2, 2 * P + 0.001))
            # a second, independent event stream alive at the same time (the pool is shared by all responses)
            plan["second_stream"] = t.choice([None, None, None, {"n": 1 + t.draw(3), "delay": t.choice((0.0, 0.001, P / 2)), "start": t.choice((0.0, 0.0, 0.3))}])
            # many clients: as many (or more) event streams already open as the shared pool has workers, their producers
            # still running when this response starts; its relay waits in the pool's queue meanwhile
            # mode "open": they are endless streams that stay open until this response has returned (or a watchdog far beyond
            # every bound gives up): its return must not depend on other clients leaving
            plan["crowd"] = {"k": t.choice((9, 10, 11)), "hold": t.choice((P / 2, 2 * P + 0.001, 4 * P)), "mode": t.choice(("finite", "open"))} if t.draw(12) == 0 else None
        return plan

    def variants(self, plan, ctx0):
        n_em = ctx0.notes.get("emissions", 0)
        vs = [("after", j) for j in range(0, min(n_em, 16))]
        if n_em > 16:
            vs.append(("after", n_em - 1))
        if plan.get("recv_raises"):
            # no disconnect can be announced through such a channel: the fault kinds left are the raising send() calls
            return [("sendraise", j) for j in range(1, min(n_em, 10) + 1)]
        if plan["surface"].startswith("asgi"):
            t_end = ctx0.notes.get("t_end", 0.0)
            for f in plan["time_fracs"]:
                vs.append(("time", round(f * t_end, 3)))
            # the transport fails: the j-th send() raises (the producer must still be released)
            vs += [("sendraise", j) for j in range(1, min(n_em, 10) + 1)]
            # the client stops reading at the j-th send() and the server gives up on it: it cancels the response call
            # (write time-out, shutdown, cancel-on-disconnect servers); the call must end and release everything
            vs += [("cancel", j) for j in range(1, min(n_em, 6) + 1)]
        elif plan["surface"] == "wsgi-sse" and (plan.get("crowd") or {}).get("mode") == "open":
            # the client goes away at an arbitrary instant; a WSGI server notices when the iterable hands something back
            for f in plan["time_fracs"]:
                vs.append(("time", round(f * 2 * plan["P"], 3)))
        return vs

    def nontrivial(self, plan, ctx, variant):
        return bool(ctx.faults)

    def execute(self, plan, ctx, variant=None):
        variant = tuple(variant) if variant is not None else None
        s = plan["surface"]
        if s.startswith("asgi"):
            self._asgi(plan, ctx, variant)
        elif s == "wsgi-sse":
            self._wsgi_sse(plan, ctx, variant)
        else:
            self._wsgi_stream(plan, ctx, variant)

    # -- expected encodings ------------------------------------------------------
    @staticmethod
    def _item(plan, i):
        if plan["surface"].endswith("sse"):
            return {"data": "i%d" % i}
        return b"" if i in plan.get("empty_items", ()) else b"<%d>" % i        # b"": a heartbeat step of a byte stream

    @staticmethod
    def _enc(plan, i):
        if plan["surface"].endswith("sse"):
            return b"data: i%d\n\n" % i
        return b"" if i in plan.get("empty_items", ()) else b"<%d>" % i

    def _check_delivery(self, plan, ctx, surf, body, complete_expected):
        n_ok = plan["n"] if plan["boom_at"] is None else plan["boom_at"]
        data = body.replace(b": ping\n\n", b"")
        exp = [self._enc(plan, i) for i in range(n_ok)]
        k = None
        for j in range(len(exp), -1, -1):          # (the longest matching prefix: empty items make several prefixes equal)
            if data == b"".join(exp[:j]):
                k = j
                break
        if k is None:
            ctx.violate("C06|%s|delivery|not-a-prefix-of-produced-items" % surf, "delivered %r, produced %r" % (data[:120], b"".join(exp)[:120]))
        elif complete_expected and k != len(exp):
            ctx.violate("C06|%s|delivery|incomplete-without-fault" % surf, "delivered %d of %d items" % (k, len(exp)))
        return k

    # ======================= ASGI =======================
    def _asgi(self, plan, ctx, variant):
        from baize.asgi import SendEventResponse, StreamResponse

        surf = plan["surface"]
        sse = surf == "asgi-sse"
        if plan.get("recv_raises") and variant is not None and variant[0] in ("after", "time"):
            return      # (only a shrunk plan gets here) no disconnect can be announced through a channel that raises: nothing to judge
        P, n, delays, boom_at, cdelay = plan["P"], plan["n"], plan["delays"], plan["boom_at"], plan["cdelay"]
        lats = L_SETS[plan["lat"]]
        L_max = max(lats)
        st = {"started": 0, "cleanup": 0, "events": []}
        boom = Boom("producer failure")
        cboom = CleanupError("cleanup failure")
        ctx.actors = 3

        def build_iterable(loop):
            async def gen():
                st["started"] += 1
                try:
                    for i, d in enumerate(delays):
                        if boom_at == i:
                            st["events"].append((loop.time(), "boom"))
                            raise boom
                        if d and plan.get("bridge"):
                            from baize.concurrency import run_in_threadpool

                            def blocking():
                                return None
                            blocking._sim_duration = d
                            await run_in_threadpool(blocking)
                        elif d:
                            await asyncio.sleep(d)
                        st["events"].append((loop.time(), "yield", i))
                        ctx.sch("prod", i, round(loop.time(), 6))
                        yield self._item(plan, i)
                    if boom_at == n:
                        st["events"].append((loop.time(), "boom"))
                        raise boom
                    if plan["end_delay"]:
                        await asyncio.sleep(plan["end_delay"])
                    st["events"].append((loop.time(), "end"))
                finally:
                    st["cleanup"] += 1
                    ctx.sch("cleanup", round(loop.time(), 6))
                    if cdelay:
                        await asyncio.sleep(cdelay)
                    if plan.get("cleanup_raises"):
                        ctx.fault("cleanup_raises")
                        raise cboom

            if plan["iter_kind"] == "gen":
                return gen()
            g = gen()

            class It:  # an async iterator without aclose()
                def __aiter__(self):
                    if plan.get("iter_fails"):
                        ctx.probe("producer_fails_in_iter")
                        raise boom
                    return self

                async def __anext__(self):
                    return await g.__anext__()

            class ItClose(It):  # an async iterator object that can be closed but is no async generator (no asend / athrow)
                async def aclose(self):
                    st["aclose_calls"] = st.get("aclose_calls", 0) + 1
                    await g.aclose()

            class Outer:        # a subscription-like object: __aiter__ hands out a SEPARATE iterator, releasing is the object's own aclose()
                def __aiter__(self):
                    return It().__aiter__()

                async def aclose(self):
                    st["aclose_calls"] = st.get("aclose_calls", 0) + 1
                    await g.aclose()

            if plan["iter_kind"] == "iter-aclose":
                return ItClose()
            if plan["iter_kind"] == "outer-aclose":
                return Outer()
            st["inner"] = g
            return It()

        async def scenario(loop):
            k = plan.get("req_msgs", 1)
            req = AbstractRequest(("HEAD" if plan.get("head") else "GET") if k == 1 else "POST", "/", headers=[("accept", "text/event-stream")], body=b"x" * k)
            if req.method == "HEAD":
                ctx.probe("head_request_to_streaming_endpoint")
            kw = {}
            if k > 1:
                ctx.probe("unread_request_body_in_several_messages")
                kw["script"] = [{"type": "http.request", "body": b"x", "more_body": i < k - 1, "delay": plan.get("req_gap", 0.0) if i else 0.0} for i in range(k)]
            if variant is not None:
                if variant[0] == "after":
                    if variant[1] == 0:
                        kw["disconnect_time"] = 0.0
                    else:
                        kw["disconnect_after_sends"] = variant[1]
                elif variant[0] == "sendraise":
                    kw["send_raise_at"] = variant[1]
                elif variant[0] == "cancel":
                    kw["send_stall_from"] = variant[1]
                else:
                    kw["disconnect_time"] = variant[1]
            peer = AsgiHttpPeer(loop, ctx, ctx.sched, req, send_lats=lats, raise_after_disconnect=plan["raising"], surface=surf, recv_raises_after_script=plan.get("recv_raises", False), **kw)
            peer.on_disconnect = lambda why: st.__setitem__("n_at_disc", len(st["events"]))
            # the application can only react once receive() has handed it the disconnect
            peer.on_disconnect_delivered = lambda: (st.setdefault("n_at_deliv", len(st["events"])), st.setdefault("t_deliv", loop.time()))
            it = build_iterable(loop)
            r = SendEventResponse(it, ping_interval=P) if sse else StreamResponse(it)
            scope, receive, send = peer.scope, peer.receive, peer.send
            if plan.get("via_denial") and k == 1:
                from baize.asgi import WebsocketDenialResponse
                ctx.probe("stream_as_websocket_denial_response")
                r = WebsocketDenialResponse(r)
                scope = dict(peer.scope, type="websocket", extensions=dict(peer.scope.get("extensions") or {}, **{"websocket.http.response": {}}))
                back = {"websocket.http.response.start": "http.response.start", "websocket.http.response.body": "http.response.body"}

                async def receive():
                    m = await peer.receive()
                    if m["type"] == "http.disconnect":
                        return {"type": "websocket.disconnect", "code": 1006}
                    return {"type": "websocket.connect"}

                async def send(m):
                    if m.get("type") not in back:
                        raise AssertionError("not a denial-response event on a websocket scope: %r" % (m.get("type"),))
                    await peer.send(dict(m, type=back[m["type"]]))
            exc = None
            # the call runs as a task of its own: if it ends in CancelledError although nobody cancelled it, that is its outcome
            call = loop.create_task(r(scope, receive, send), name="response")
            server_cancelled = None
            try:
                if variant is not None and variant[0] == "cancel":
                    await asyncio.wait([call, peer.stalled], return_when=asyncio.FIRST_COMPLETED)
                    if not call.done():
                        await asyncio.sleep(plan["time_fracs"][0] * P)     # the server's write time-out
                        ctx.fault("server_cancels_response_call")
                        server_cancelled = loop.time()
                        call.cancel()
                        await asyncio.wait([call], timeout=P + 3 * L_max + cdelay + 0.01)
                        if not call.done():
                            st["cancel_ignored"] = True
                            call.cancel()       # a second cancellation, so that the run can be judged
                            await asyncio.wait([call], timeout=P + 3 * L_max + cdelay + 0.01)
                            if not call.done():
                                raise SimDeadlock("the response call survived two cancellations by the server")
                else:
                    await asyncio.wait([call])
            finally:
                if not call.done():
                    call.cancel()
            if call.cancelled():
                exc = None if server_cancelled is not None else SpuriousCancel("the response call ended in CancelledError although nobody cancelled it")
            elif call.exception() is not None:
                exc = call.exception()
                if isinstance(exc, (SimDeadlock, SimTimeLimit, SimStepLimit)):
                    raise exc
            t_ret = loop.time()
            if exc is None and server_cancelled is None:
                peer.monitor.on_return()
            await asyncio.sleep(cdelay + 0.002)
            for _ in range(6):
                await asyncio.sleep(0)
            pend = [tk for tk in asyncio.all_tasks(loop) if tk is not asyncio.current_task() and not tk.done()]
            snap = {"exc": exc, "t_ret": t_ret, "pend": len(pend), "pend_names": sorted(getattr(tk.get_coro(), "__qualname__", "?") for tk in pend),
                    "st": dict(st, events=list(st["events"])), "t_disc": peer.t_disconnect if peer.disc_why not in (None, "complete") else None,
                    "busy": peer.busy_polling, "body": peer.body, "sends": peer.sends_completed, "complete": peer.complete,
                    "pings": peer.body.count(b": ping\n\n")}
            inner = st.get("inner")
            if inner is not None:   # iterator without aclose: release it ourselves after the snapshot
                try:
                    await inner.aclose()
                except CleanupError:
                    pass
            return snap

        try:
            snap, loop = run_sim(scenario, ctx.sched, ctx, vcap=1000.0 * P, step_cap=50000, tick=(0.0, 1e-7, 2e-7) if plan.get("tick") else None)
        except (SimDeadlock, SimTimeLimit, SimStepLimit) as e:
            ctx.violate("C06|%s|termination|never-returns|%s" % (surf, type(e).__name__), "response call did not return: %s" % e)
            return
        ctx.ev("snap", snap["t_ret"], snap["pend"], snap["st"]["cleanup"], snap["sends"], repr(type(snap["exc"]).__name__))
        if variant is None:
            ctx.notes["emissions"] = snap["sends"]
            ctx.notes["t_end"] = snap["t_ret"]
        if snap["pings"]:
            ctx.probe("asgi_sse_ping_sent")
        exc = snap["exc"]
        t_disc = snap["t_disc"]
        # 4. exception identity
        if exc is not None:
            if exc is boom or exc is cboom:
                pass
            elif isinstance(exc, ClientGone) and plan["raising"] and t_disc is not None:
                pass
            elif isinstance(exc, InjectedSendError) and variant is not None and variant[0] == "sendraise":
                pass
            elif isinstance(exc, InjectedReceiveError) and plan.get("recv_raises"):
                pass    # the transport's own failure may leave the call (today the watcher's failure is dropped)
            else:
                ctx.violate("C06|%s|exception|foreign-exception|%s" % (surf, type(exc).__name__), repr(exc))
        elif boom_at is not None and t_disc is None and not (variant is not None and variant[0] in ("sendraise", "cancel")):
            ctx.violate("C06|%s|exception|producer-exception-swallowed" % surf, "producer raised at step %d, call returned normally" % boom_at)
        if variant is not None and variant[0] == "sendraise" and exc is None and snap["sends"] + 1 >= variant[1] and ctx.faults.get("send_raises"):
            ctx.violate("C06|%s|exception|send-error-swallowed" % surf, "send() call %d raised, the response call returned normally" % variant[1])
        if snap["busy"]:
            ctx.violate("C06|%s|termination|busy-polls-receive-after-disconnect" % surf, "receive() was called more than 5000 times after it had delivered the disconnect")
        if snap["st"].get("cancel_ignored"):
            ctx.violate("C06|%s|termination|server-cancellation-does-not-end-the-call" % surf, "client stopped reading at send() call %d, the server cancelled the call; it was still running %.3f s later" % (variant[1], P + 3 * L_max + cdelay + 0.01))
        # 1. termination bound (virtual time)
        if t_disc is not None:
            # the application can react only once receive() has returned the disconnect to it
            t_disc = max(t_disc, snap["st"].get("t_deliv", t_disc))
            if sse:
                bound = t_disc + P + 3 * L_max + cdelay + 0.01
            else:
                # the producer's next step = its first event recorded after the disconnect instant
                nxt = [e[0] for e in snap["st"]["events"][snap["st"].get("n_at_deliv", snap["st"].get("n_at_disc", 0)):]]
                bound = max(t_disc, nxt[0] if nxt else t_disc) + 2 * L_max + cdelay + 0.01
            if snap["t_ret"] > bound:
                ctx.violate("C06|%s|termination|late" % surf, "disconnect at %.3f, returned at %.3f, bound %.3f (P=%s, Lmax=%s)" % (t_disc, snap["t_ret"], bound, P, L_max))
        # 2. release
        started = snap["st"]["started"]
        ncl = snap["st"].get("aclose_calls", 0)
        if plan["iter_kind"] in ("iter-aclose", "outer-aclose") and not plan.get("iter_fails") and (ncl > 1 or (ncl != 1 and variant is None)):
            # an object that offers aclose() is released through it exactly once in a run without faults (the body is streamed,
            # whatever the method) and never twice; under faults the statement's own measure (the cleanup marker) decides
            ctx.violate("C06|%s|release|aclose-called-%d-times|%s" % (surf, snap["st"].get("aclose_calls", 0), plan["iter_kind"]), "producer object's aclose() calls: %d" % snap["st"].get("aclose_calls", 0))
        if plan["iter_kind"] in ("gen", "iter-aclose", "outer-aclose"):
            if started and snap["st"]["cleanup"] != 1:
                ctx.violate("C06|%s|release|cleanup-ran-%d-times" % (surf, snap["st"]["cleanup"]), "producer started, cleanup count %d" % snap["st"]["cleanup"])
        elif snap["st"]["cleanup"] > 1:
            ctx.violate("C06|%s|release|cleanup-ran-%d-times" % (surf, snap["st"]["cleanup"]), "")
        if snap["pend"]:
            ctx.violate("C06|%s|release|task-still-pending|%s" % (surf, ",".join(snap["pend_names"])), "%d tasks pending after the call returned and cleanup time elapsed" % snap["pend"])
        errs = [e for e in loop.errors if not (plan.get("cleanup_raises") and e[1] == "CleanupError")
                and not (plan.get("recv_raises") and e[1] == "InjectedReceiveError")]     # the disconnect watcher died of the injected failure; nobody awaits it
        if errs:
            ctx.violate("C06|%s|release|loop-error|%s" % (surf, errs[0][0][:40]), repr(errs[:3]))
        # 3. delivery
        # without a fault everything the producer yielded - also before it raised its own exception - must have been delivered
        self._check_delivery(plan, ctx, surf, snap["body"], complete_expected=(t_disc is None and variant is None and (exc is None or exc is boom or exc is cboom)))
        if t_disc is None and exc is None and not snap["complete"] and not ctx.faults.get("send_raises") and not ctx.faults.get("server_cancels_response_call"):
            ctx.violate("C06|%s|termination|returned-without-final-body" % surf, "")

    # ======================= WSGI SSE (threads) =======================
    def _wsgi_sse(self, plan, ctx, variant):
        from baize.wsgi import SendEventResponse
        from .. import threads as T

        surf = "wsgi-sse"
        P, n, delays, boom_at = plan["P"], plan["n"], plan["delays"], plan["boom_at"]
        st = {"started": 0, "cleanup": 0, "events": []}
        boom = Boom("producer failure")
        cboom = CleanupError("cleanup failure")
        out = {}
        second = {"cleanup": 0, "body": b"", "exc": None, "done": False}
        close_after = None if variant is None or variant[0] == "time" else variant[1]
        t_gone = variant[1] if variant is not None and variant[0] == "time" else None
        rel = {"on": False, "t": None, "by_watchdog": False}
        ctx.notes["qrepr"] = lambda x: None if x is None else (x.get("data") if isinstance(x, dict) else type(x).__name__)
        with T.simulation(ctx.sched, ctx, trace_files=("baize/wsgi/responses.py", "baize/concurrency.py"), preempt=plan["preempt"]) as s:
            import time as _t
            s.pool_delay = plan.get("pool_delay", 0.0)

            def gen():
                st["started"] += 1
                try:
                    for i, d in enumerate(delays):
                        if boom_at == i:
                            st["events"].append((s.now, "boom"))
                            raise boom
                        if d:
                            _t.sleep(d)
                        st["events"].append((s.now, "yield", i))
                        yield {"data": "i%d" % i}
                    if boom_at == n:
                        st["events"].append((s.now, "boom"))
                        raise boom
                    if plan["end_delay"]:
                        _t.sleep(plan["end_delay"])
                    st["events"].append((s.now, "end"))
                finally:
                    st["cleanup"] += 1
                    if plan.get("cleanup_raises"):
                        ctx.fault("cleanup_raises")
                        raise cboom

            if plan["iter_kind"] == "gen":
                iterable = gen()
            else:
                g = gen()

                class It:
                    def __iter__(self):
                        if plan.get("iter_fails"):
                            ctx.probe("producer_fails_in_iter")
                            raise boom
                        return self

                    def __next__(self):
                        return next(g)

                st["inner"] = g
                iterable = It()

            peer = WsgiPeer(ctx, ctx.sched, AbstractRequest("GET", "/"), surface=surf)

            def on_item(p, item):
                d = plan["cdelays"][(p.n_items - 1) % len(plan["cdelays"])]
                if d:
                    _t.sleep(d)
                if (close_after is not None and p.n_items >= close_after) or (t_gone is not None and s.now >= t_gone):
                    if t_gone is not None:
                        ctx.fault("disconnect_at_instant")
                    out["close_start"] = s.now
                    out["n_at_close"] = len(st["events"])
                    out["relay_at_close"] = [x for x in s.snapshot() if x[0].startswith("pool")]
                    return True

            def consumer():
                r = SendEventResponse(iterable, ping_interval=P)
                if close_after == 0:
                    out["close_start"] = s.now
                    out["n_at_close"] = 0
                peer.run(r, close_after=close_after, on_item=on_item)
                out["closed_at"] = s.now

            crowd = plan.get("crowd")
            crowd_st = []
            if crowd:
                ctx.probe("wsgi_sse_crowd_%d" % crowd["k"])

                def member(idx):
                    cs = {"cleanup": 0, "body": b"", "exc": None, "done": False}
                    crowd_st.append(cs)

                    def cgen():
                        try:
                            _t.sleep(crowd["hold"])
                            yield {"data": "c%d" % idx}
                            while crowd.get("mode") == "open" and not rel["on"]:
                                _t.sleep(max(crowd["hold"], P))
                        finally:
                            cs["cleanup"] += 1

                    def cconsumer():
                        cp = WsgiPeer(ctx, ctx.sched, AbstractRequest("GET", "/crowd%d" % idx), surface=surf)
                        cp.run(SendEventResponse(cgen(), ping_interval=P))
                        cs.update(body=cp.body, exc=cp.exc or cp.close_exc, done=True)

                    s.spawn(cconsumer, "crowd%d" % idx)

                for idx in range(crowd["k"]):
                    member(idx)
                main_consumer = consumer

                def consumer():       # the response under test is opened once the others are
                    _t.sleep(0.01)
                    main_consumer()

                if crowd.get("mode") == "open":
                    ctx.probe("wsgi_sse_crowd_open")

                    def watchdog():
                        if not s.block_until(lambda: "closed_at" in out, 8 * P, "watchdog"):
                            rel["by_watchdog"] = True
                            ctx.probe("wsgi_sse_crowd_released_by_watchdog")
                        rel["on"] = True
                        rel["t"] = s.now

                    s.spawn(watchdog, "watchdog")

            s.spawn(consumer, "consumer")
            ss = plan.get("second_stream")
            if ss:
                ctx.probe("wsgi_sse_two_streams")

                def gen2():
                    try:
                        for i in range(ss["n"]):
                            if ss["delay"]:
                                _t.sleep(ss["delay"])
                            yield {"data": "s%d" % i}
                    finally:
                        second["cleanup"] += 1

                def consumer2():
                    if ss["start"]:
                        _t.sleep(ss["start"])
                    peer2 = WsgiPeer(ctx, ctx.sched, AbstractRequest("GET", "/two"), surface=surf)
                    peer2.run(SendEventResponse(gen2(), ping_interval=P))
                    second.update(body=peer2.body, exc=peer2.exc or peer2.close_exc, done=True)

                s.spawn(consumer2, "consumer2")
            res = s.run()
            # snapshot BEFORE teardown
            snap = {"res": res, "threads": s.snapshot(), "st": dict(st, events=list(st["events"])), "out": dict(out), "body": peer.body, "second": dict(second), "crowd": [dict(c) for c in crowd_st], "rel": dict(rel),
                    "exc": peer.exc, "close_exc": peer.close_exc, "items": peer.n_items, "now": s.now, "switches": s.switches, "pre": s.preemptions}
            inner = st.get("inner")
        # (simulation exited: threads torn down)
        if st.get("inner") is not None:
            try:
                st["inner"].close()
            except BaseException:
                pass
        ctx.ev("snap", snap["res"], snap["threads"], snap["st"]["cleanup"], snap["items"], snap["now"])
        ctx.actors = 2
        if snap["pre"]:
            ctx.fault("thread_preemption", snap["pre"])
        if variant is None:
            ctx.notes["emissions"] = snap["items"] + 1
        relay_alive = [x for x in snap["out"].get("relay_at_close", []) if x[1] != "done"]
        if relay_alive:
            ctx.probe("wsgi_sse_close_while_relay_alive")
            if any(x[2] == "Queue.put" for x in relay_alive):
                ctx.probe("wsgi_sse_close_while_relay_blocked_in_put")
        if snap["body"].count(b": ping\n\n"):
            ctx.probe("wsgi_sse_ping_sent")
        # 1. termination
        if snap["res"] != "ok":
            blocked = "+".join("%s:%s" % (nm.rstrip("0123456789"), what) for nm, stt, what in snap["threads"] if stt != "done")
            ctx.violate("C06|%s|termination|%s|%s" % (surf, snap["res"], blocked),
                        "scheduler result %s; threads %r; close started at %r" % (snap["res"], snap["threads"], snap["out"].get("close_start")))
        else:
            if "close_start" in snap["out"] and "closed_at" in snap["out"]:
                t0 = snap["out"]["close_start"]
                # Between the server's decision to close and the first statement of close() the relay
                # thread may run any number of producer steps, but only zero-time ones (the consumer is
                # runnable, so virtual time cannot pass).  The first producer event that needed time to
                # pass is therefore "the producer's next step".
                nxt = [e[0] for e in snap["st"]["events"][snap["out"].get("n_at_close", 0):] if e[0] > t0]
                bound = (nxt[0] if nxt else t0) + 0.001
                if snap["out"]["closed_at"] > bound:
                    ctx.violate("C06|%s|termination|close-late" % surf, "close() began at %.3f, returned at %.3f, producer's next step at %.3f" % (t0, snap["out"]["closed_at"], bound))
            # 2. release (all threads done is implied by res == ok)
            if plan["iter_kind"] == "gen" and snap["st"]["started"] and snap["st"]["cleanup"] != 1:
                ctx.violate("C06|%s|release|cleanup-ran-%d-times" % (surf, snap["st"]["cleanup"]), "")
        # the second, independent stream must be unaffected: complete delivery, cleanup once, no exception
        if plan.get("second_stream") and snap["res"] == "ok":
            s2 = snap["second"]
            exp2 = b"".join(b"data: s%d\n\n" % i for i in range(plan["second_stream"]["n"]))
            if s2["exc"] is not None:
                ctx.violate("C06|%s|second-stream|exception|%s" % (surf, type(s2["exc"]).__name__), repr(s2["exc"]))
            elif not s2["done"] or s2["body"].replace(b": ping\n\n", b"") != exp2 or s2["cleanup"] != 1:
                ctx.violate("C06|%s|second-stream|incomplete" % surf, "done=%s cleanup=%d body=%r" % (s2["done"], s2["cleanup"], s2["body"][:80]))
        if snap["res"] == "ok" and t_gone is not None and snap["rel"]["by_watchdog"]:
            # the client left at t_gone <= 2P; whatever the pool's load, the iterable hands a ping back within one interval, the
            # server closes it, and close() returns: 8P later this response was still open and returned only once the OTHER
            # streams had been ended
            ctx.violate("C06|%s|termination|returns-only-after-other-streams-ended" % surf,
                        "client gone at %.3f; %d other event streams open; the response had not returned at %.3f when the others were released; returned at %r"
                        % (t_gone, plan["crowd"]["k"], snap["rel"]["t"], snap["out"].get("closed_at")))
        if snap["res"] == "ok":
            for idx, c in enumerate(snap["crowd"]):
                if c["exc"] is not None:
                    ctx.violate("C06|%s|crowd-stream|exception|%s" % (surf, type(c["exc"]).__name__), repr(c["exc"]))
                elif not c["done"] or c["body"].replace(b": ping\n\n", b"") != b"data: c%d\n\n" % idx or c["cleanup"] != 1:
                    ctx.violate("C06|%s|crowd-stream|incomplete" % surf, "stream %d: done=%s cleanup=%d body=%r" % (idx, c["done"], c["cleanup"], c["body"][:80]))
        # 4. exception identity
        for e in (snap["exc"], snap["close_exc"]):
            if e is not None and e is not boom and e is not cboom:
                ctx.violate("C06|%s|exception|foreign-exception|%s" % (surf, type(e).__name__), repr(e))
        if snap["res"] == "ok" and close_after is None and t_gone is None and boom_at is not None and snap["exc"] is None and snap["close_exc"] is None:
            ctx.violate("C06|%s|exception|producer-exception-swallowed" % surf, "producer raised at step %d" % boom_at)
        # 3. delivery
        self._check_delivery(plan, ctx, surf, snap["body"], complete_expected=(close_after is None and t_gone is None and snap["res"] == "ok" and (snap["exc"] is None or snap["exc"] is boom or snap["exc"] is cboom)))

    # ======================= WSGI stream (sequential) =======================
    def _wsgi_stream(self, plan, ctx, variant):
        from baize.wsgi import StreamResponse

        surf = "wsgi-stream"
        n, boom_at = plan["n"], plan["boom_at"]
        st = {"started": 0, "cleanup": 0}
        boom = Boom("producer failure")
        close_after = None if variant is None else variant[1]

        def gen():
            st["started"] += 1
            try:
                for i in range(n):
                    if boom_at == i:
                        raise boom
                    yield self._item(plan, i)
                if boom_at == n:
                    raise boom
            finally:
                st["cleanup"] += 1

        peer = WsgiPeer(ctx, ctx.sched, AbstractRequest("GET", "/"), surface=surf)
        g = gen()                       # referenced until after the snapshot: an abandoned generator would otherwise be
        src = g                         # finalised by reference counting and run its cleanup "by itself"
        if plan["iter_kind"] != "gen":
            class Cursor:               # an iterator object with its own, non-idempotent close() (a pooled cursor, a file-like reader)
                def __iter__(self):
                    return self

                def __next__(self):
                    return next(g)

                def close(self):
                    st["close_calls"] = st.get("close_calls", 0) + 1
                    g.close()

            src = Cursor()
            ctx.probe("wsgi_stream_iterator_object")
        resp = StreamResponse(src)
        peer.run(resp, close_after=close_after)
        snap = dict(st)
        del resp
        g.close()
        if snap.get("close_calls", 0) > 1:
            ctx.violate("C06|%s|release|producer-closed-%d-times" % (surf, snap["close_calls"]), "the producer object's close() was called %d times" % snap["close_calls"])
        ctx.ev("snap", snap["cleanup"], peer.n_items, type(peer.exc).__name__)
        ctx.actors = 1
        if variant is None:
            ctx.notes["emissions"] = peer.n_items + 1
        if snap["started"] and snap["cleanup"] != 1:
            ctx.violate("C06|%s|release|cleanup-ran-%d-times" % (surf, snap["cleanup"]), "")
        for e in (peer.exc, peer.close_exc):
            if e is not None and e is not boom:
                ctx.violate("C06|%s|exception|foreign-exception|%s" % (surf, type(e).__name__), repr(e))
        if close_after is None and boom_at is not None and peer.exc is None:
            ctx.violate("C06|%s|exception|producer-exception-swallowed" % surf, "")
        self._check_delivery(plan, ctx, surf, peer.body, complete_expected=(close_after is None and (peer.exc is None or peer.exc is boom)))


PROP = C06
