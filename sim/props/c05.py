"""C05 - every response obeys the server-gateway protocol (fault enumeration).

For each generated (response recipe, request, server flavour) the fault-free run yields
N emission points; the scenario is re-run once per point and fault kind:
  ASGI: client disconnect delivered via receive() after the j-th send; the j-th send() raising;
  WSGI: server close() after the j-th item;
  both: producer raising at its k-th step; file I/O failing at its i-th call.
Oracle: the protocol monitors (ASGI HTTP / PEP 3333) never trip and the only exceptions
leaving the call are the injected one or the producer's own.
"""
import asyncio

from .. import fs as simfs
from .. import recipes
from ..asgi_peer import AsgiHttpPeer, ClientGone, InjectedSendError
from ..core import Prop, jsonable
from ..httpreq import AbstractRequest
from ..loop import SimDeadlock, SimStepLimit, SimTimeLimit, run_sim
from ..wsgi_peer import WsgiPeer

FILES = [("f/empty.bin", 0), ("f/one.txt", 1), ("f/ten.txt", 10), ("f/k.dat", 1000), ("f/big.bin", 70001), ("f/页.html", 33)]
RANGES = [None, None, "bytes=0-", "bytes=0-0", "bytes=2-5", "bytes=-3", "bytes=5-", "bytes=0-2,4-6", "bytes=0-1,1-3,8-", "bytes=999999-",
          "bytes=5-4", "bytes=x-y", "items=0-1", "bytes=", "bytes=0-99999999", "bytes=-0", "bytes=9-9,0-0"]


def pattern(n, salt=0):
    return bytes(((i * 7 + salt) % 251) for i in range(n))


class Boom(Exception):
    pass


class C05(Prop):
    id = "C05"
    level = "fault_enumeration"
    rule = ("one seed = one (interface, response recipe: class x constructor arguments x cookies, request method/Range/If-Range, "
            "server flavour: zero-copy offered, raising send) run fault-free and then once per (fault kind, point): disconnect "
            "after every send, every send raising, close() after every WSGI item, producer raising at every step, file I/O "
            "failing at every call; evaluations = executions; non-trivial = a fault fired; distinct = distinct digests of the "
            "emission/scheduling event sequence")
    assumptions = ("header values supplied by the caller are legal (Latin-1, no control characters, end-to-end)",
                   "a message handed to send() counts as emitted even if that send() raises",
                   "WSGI header values may contain HTAB but no other control character")
    components = {"real": ["every baize.asgi.*Response.__call__", "every baize.wsgi.*Response.__call__", "baize.responses.*", "baize.datastructures.Cookie/MutableHeaders",
                           "baize.concurrency.run_in_threadpool"],
                  "stub": ["ASGI server (protocol monitor)", "WSGI server (PEP 3333 monitor)", "event loop clock/selector, executor inlined at seeded instants",
                           "os.open/os.read/os.lseek/open() fault injection on real temp files", "WSGI SSE runs without a ping timer race (single producer thread joined by the real pool is replaced by SimThreads)"]}
    hard_probes = ("disconnect", "send_raises", "server_close_early", "producer_raises", "io_error_os_read", "io_error_file_read", "zerocopy_message", "range_error_response", "staticapp", "file_vanished", "ws_denial_prelude", "app_task_cancelled", "bystander_download")
    quick_runs = 60000
    thorough_runs = 1200000
    batch = 250

    def setup(self, workdir):
        self.workdir = workdir
        self.fs = simfs.install(workdir + "/fs")
        for i, (rel, size) in enumerate(FILES):
            self.fs.write(rel, pattern(size, i), mtime=1_600_000_000.0 + i, ctime=1_600_000_000.0 + i)
        for i, (rel, data) in enumerate(recipes.STATIC_TREE):
            self.fs.write(rel, data, mtime=1_600_000_100.0 + i, ctime=1_600_000_100.0 + i)

    # -- plan ----------------------------------------------------------------
    def gen_plan(self, t):
        iface = t.choice(["asgi", "wsgi"])
        r = recipes.gen_recipe(t, kinds=["response", "text", "html", "json", "redirect", "stream", "sse", "file", "file", "staticapp"], files=FILES)
        plan = {"iface": iface, "recipe": r, "method": t.weighted([(4, "GET"), (1, "HEAD"), (1, "POST")]),
                "zerocopy": t.draw(3) == 0, "raising": t.draw(3) == 0, "range": None, "if_range": None,
                "lat": t.choice(["fast", "mixed"]),
                # history before the response: a websocket handshake refused through the denial-response extension
                "ws_prelude": iface == "asgi" and t.draw(6) == 0,
                # another download going on at the same time on the same loop (its start delay)
                "bystander": t.choice([None, None, 0.0, 0.001, 0.01]) if iface == "asgi" else None}
        if r["kind"] == "staticapp":
            plan["range"] = t.choice([None, None, None, "bytes=0-1", "bytes=9-"])
            plan["if_range"] = None
        if r["kind"] == "file":
            if r["size"] // r["chunk_size"] > 150:      # keep the number of emissions per run bounded
                r["chunk_size"] = r["size"] // (3 + t.draw(40)) + 1
            plan["range"] = t.choice(RANGES)
            plan["if_range"] = t.choice([None, None, None, '"nope"', "Wed, 21 Oct 2015 07:28:00 GMT"])
        return plan

    def describe(self, plan, variant=None):
        return {"plan": jsonable(plan), "variant": jsonable(variant)}

    def variants(self, plan, ctx0):
        n = ctx0.notes.get("emissions", 0)
        vs = []
        cap = 14
        pts = list(range(0, n + 1)) if n <= cap else list(range(0, cap)) + [n - 1, n]
        if plan["iface"] == "asgi":
            vs += [("disc", j) for j in pts]
            vs += [("sendraise", j) for j in pts if j >= 1]
            vs += [("cancel", j) for j in pts if j >= 1]      # the server cancels the application task after the j-th send
        else:
            vs += [("close", j) for j in pts]
        r = plan["recipe"]
        if r["kind"] == "stream":
            vs += [("prod", k) for k in range(len(r["chunks"]) + 1)]
        elif r["kind"] == "sse":
            vs += [("prod", k) for k in range(len(r["events"]) + 1)]
        elif r["kind"] in ("file", "staticapp"):
            for kind, cnt in sorted(ctx0.notes.get("io_calls", {}).items()):
                for i in range(1, min(cnt, 6) + 1):
                    vs.append(("io", kind, i))
                    if kind in ("os_open", "file_open"):
                        vs.append(("io", kind, i, "enoent"))     # the file vanished between stat() and open()
                if cnt > 6:
                    vs.append(("io", kind, cnt))
        return vs

    def nontrivial(self, plan, ctx, variant):
        return bool(ctx.faults)

    # -- execute -------------------------------------------------------------
    def execute(self, plan, ctx, variant=None):
        # cookies with expires= read the wall clock: keep it virtual so that runs replay exactly
        from ..simclock import SimClock, installed
        with installed(SimClock(1_700_000_000.25), "UTC"):
            self._execute(plan, ctx, variant)

    def _execute(self, plan, ctx, variant=None):
        variant = tuple(variant) if variant is not None else None
        fs = self.fs
        fs.fault_plan = {}
        fs.calls = {}
        fs.ctx = ctx
        r = dict(plan["recipe"])
        boom = Boom("producer failure")
        if r["kind"] == "staticapp":
            ctx.probe("staticapp")
        if variant is not None and variant[0] == "io" and len(variant) > 3:
            ctx.probe("file_vanished")
        if variant is not None and variant[0] == "prod":
            r["raise_at"] = variant[1]
            ctx.fault("producer_raises")
        fs.fault_flavour = "eio"
        if variant is not None and variant[0] == "io":
            fs.fault_plan = {variant[1]: variant[2]}
            if len(variant) > 3:
                fs.fault_flavour = variant[3]
        headers = []
        if plan["range"]:
            headers.append(("range", plan["range"]))
        if plan["if_range"]:
            headers.append(("if-range", plan["if_range"]))
        req = AbstractRequest(plan["method"], r["path"] if r["kind"] == "staticapp" else "/x", headers=headers + [("host", "example.org")], body=b"")
        try:
            if plan["iface"] == "asgi":
                self._asgi(plan, ctx, variant, r, req, boom)
            else:
                self._wsgi(plan, ctx, variant, r, req, boom)
        finally:
            if variant is None:
                ctx.notes["io_calls"] = dict(fs.calls)
            fs.fault_plan = {}
            fs.ctx = None
            for fd in list(fs.fds):       # descriptors left open by cancelled / failed runs
                try:
                    simfs._real_close(fd)
                except OSError:
                    pass
            fs.fds.clear()
        for key, detail in ctx.monitor_trips:
            ctx.violate("C05|%s|%s" % (key, r["kind"]), "%s %s" % (detail, self._ctx_of(plan, variant)))

    @staticmethod
    def _ctx_of(plan, variant):
        return "[recipe kind=%s status=%s range=%r method=%s variant=%r]" % (plan["recipe"]["kind"], plan["recipe"].get("status"), plan["range"], plan["method"], variant)

    def _allowed_exc(self, ctx, surf, kind, exc, variant, boom, plan):
        if exc is None:
            return
        if exc is boom:
            return
        if isinstance(exc, InjectedSendError) and variant is not None and variant[0] == "sendraise":
            return
        if isinstance(exc, ClientGone) and plan["raising"] and variant is not None and variant[0] == "disc":
            return
        if isinstance(exc, asyncio.CancelledError) and variant is not None and variant[0] == "cancel":
            return
        if isinstance(exc, (simfs.InjectedIOError, simfs.InjectedVanish)) and variant is not None and variant[0] == "io":
            return
        dn = plan["recipe"].get("download_name") or ""
        if kind == "file" and isinstance(exc, ValueError) and any(c in dn for c in "\r\n\x00") and ctx.notes.get("nothing_emitted"):
            return      # a caller-supplied name with CR / LF / NUL may be refused, as long as nothing was emitted
        from baize.exceptions import HTTPException
        if kind == "staticapp" and isinstance(exc, HTTPException) and exc.status_code == 404 and not plan["recipe"]["handle_404"]:
            return      # Files/Pages without handle_404 answer a missing file by raising HTTPException(404) before anything is sent
        ctx.violate("C05|%s|foreign-exception|%s|%s" % (surf, kind, type(exc).__name__), "%r %s" % (exc, self._ctx_of(plan, variant)))

    # ======================= ASGI =======================
    def _asgi(self, plan, ctx, variant, r, req, boom):
        lats = {"fast": (0.0,), "mixed": (0.0, 0.0, 0.2, 1.0)}[plan["lat"]]
        kw = {}
        if variant is not None and variant[0] == "disc":
            if variant[1] == 0:
                kw["disconnect_time"] = 0.0
            else:
                kw["disconnect_after_sends"] = variant[1]
        if variant is not None and variant[0] == "sendraise":
            kw["send_raise_at"] = variant[1]

        cancel_after = variant[1] if variant is not None and variant[0] == "cancel" else None
        by = {"exc": None, "status": None, "body": None, "complete": None}

        async def scenario(loop):
            if plan.get("ws_prelude"):
                await self._ws_denial_prelude(ctx)
            peer = AsgiHttpPeer(loop, ctx, ctx.sched, req, zerocopy=plan["zerocopy"], raise_after_disconnect=plan["raising"],
                                send_lats=lats, surface="asgi", **kw)

            async def main():
                resp = recipes.build(r, "asgi", self.fs, {"boom": boom})
                await resp(peer.scope, peer.receive, peer.send)

            async def bystander(delay):
                from baize.asgi import FileResponse
                if delay:
                    await asyncio.sleep(delay)
                bpeer = AsgiHttpPeer(loop, ctx, ctx.sched, AbstractRequest("GET", "/by", body=b""), send_lats=(0.0, 0.001), surface="asgi-bystander")
                try:
                    await FileResponse(self.fs.path("f/k.dat"), chunk_size=256)(bpeer.scope, bpeer.receive, bpeer.send)
                    bpeer.monitor.on_return()
                except BaseException as e:  # noqa
                    if isinstance(e, (asyncio.CancelledError, SimDeadlock, SimTimeLimit, SimStepLimit)):
                        raise
                    by["exc"] = e
                by.update(status=bpeer.status, body=len(bpeer.body), complete=bpeer.complete)

            task = loop.create_task(main(), name="app")
            btask = None
            if plan.get("bystander") is not None and variant is not None and variant[0] in ("cancel", "sendraise"):
                ctx.probe("bystander_download")
                btask = loop.create_task(bystander(plan["bystander"]), name="bystander")
            if cancel_after is not None:
                real_send = peer.send

                async def send(msg):
                    await real_send(msg)
                    if peer.sends_completed == cancel_after:
                        ctx.fault("app_task_cancelled")
                        task.cancel()

                peer.send = send
            exc = None
            try:
                await asyncio.wait([task])
                if task.cancelled():
                    exc = asyncio.CancelledError()
                elif task.exception() is not None:
                    exc = task.exception()
            finally:
                pass
            if isinstance(exc, (SimDeadlock, SimTimeLimit, SimStepLimit)):
                raise exc
            if exc is None:
                peer.monitor.on_return()
            if btask is not None:
                await asyncio.wait([btask], timeout=600.0)
                if not btask.done():
                    by["exc"] = TimeoutError("bystander download never finished")
                    btask.cancel()
            await asyncio.sleep(0.3)
            return exc, peer.send_calls, peer.status, peer.complete

        try:
            (exc, sends, status, complete), loop = run_sim(scenario, ctx.sched, ctx, vcap=3000.0)
        except (SimDeadlock, SimTimeLimit, SimStepLimit) as e:
            ctx.violate("C05|asgi|hang|%s|%s" % (r["kind"], type(e).__name__), "%s %s" % (e, self._ctx_of(plan, variant)))
            return
        ctx.actors = 2
        ctx.ev("done", type(exc).__name__, sends, status, complete)
        if variant is None:
            ctx.notes["emissions"] = sends
        if status in (400, 416) and r["kind"] == "file":
            ctx.probe("range_error_response")
        ctx.notes["nothing_emitted"] = sends == 0
        self._allowed_exc(ctx, "asgi", r["kind"], exc, variant, boom, plan)
        if by["status"] is not None or by["exc"] is not None:
            # an unrelated download on the same loop must not be disturbed by what happens to this response
            if by["exc"] is not None:
                ctx.violate("C05|asgi|bystander-download-failed|%s|%s" % (r["kind"], type(by["exc"]).__name__), "%r %s" % (by["exc"], self._ctx_of(plan, variant)))
            elif by["status"] != 200 or by["body"] != 1000 or not by["complete"]:
                ctx.violate("C05|asgi|bystander-download-damaged|%s" % r["kind"], "status %s, %s bytes, complete %s %s" % (by["status"], by["body"], by["complete"], self._ctx_of(plan, variant)))
        if variant is None and exc is None and not complete:
            ctx.violate("C05|asgi|returned-without-complete-response|%s" % r["kind"], self._ctx_of(plan, variant))

    async def _ws_denial_prelude(self, ctx):
        """A websocket handshake answered by an HTTP view: request_response refuses it through the denial-response extension."""
        import baize.asgi as M
        ctx.probe("ws_denial_prelude")

        @M.request_response
        async def view(request):
            return M.PlainTextResponse("never reached")

        sent = []

        async def receive():
            return {"type": "websocket.connect"} if not sent else {"type": "websocket.disconnect", "code": 1006}

        async def send(msg):
            sent.append(msg.get("type"))

        scope = {"type": "websocket", "path": "/ws", "root_path": "", "query_string": b"", "headers": [], "scheme": "ws",
                 "extensions": {"websocket.http.response": {}}, "subprotocols": []}
        try:
            await view(scope, receive, send)
        except asyncio.CancelledError:
            raise
        except Exception as e:
            ctx.violate("C05|asgi|websocket-denial-raised|%s" % type(e).__name__, repr(e))
            return
        ctx.ev("ws-prelude", tuple(sent))
        if sent[:1] != ["websocket.http.response.start"] or sent[-1:] != ["websocket.http.response.body"]:
            ctx.violate("C05|asgi|websocket-denial-sequence", repr(sent))

    # ======================= WSGI =======================
    def _wsgi(self, plan, ctx, variant, r, req, boom):
        close_after = variant[1] if variant is not None and variant[0] == "close" else None
        peer = WsgiPeer(ctx, ctx.sched, req, surface="wsgi")
        if r["kind"] == "sse":
            # the WSGI SSE response needs its relay thread: run it under SimThreads
            from .. import threads as T
            ctx.notes["qrepr"] = lambda x: type(x).__name__
            with T.simulation(ctx.sched, ctx, trace_files=(), preempt=(0, 1)) as s:
                import time as _t

                def consumer():
                    try:
                        resp = recipes.build(r, "wsgi", self.fs, {"boom": boom, "sleep": _t.sleep})
                    except Exception as e:
                        peer.exc = e
                        return
                    peer.run(resp, close_after=close_after)

                s.spawn(consumer, "consumer")
                res = s.run()
                snap = (res, s.snapshot())
            if snap[0] != "ok":
                ctx.violate("C05|wsgi|hang|sse|%s" % snap[0], "%r %s" % (snap[1], self._ctx_of(plan, variant)))
                return
        else:
            try:
                resp = recipes.build(r, "wsgi", self.fs, {"boom": boom})
            except Exception as e:
                peer.exc = e
            else:
                peer.run(resp, close_after=close_after)
        ctx.actors = 2
        ctx.ev("done", type(peer.exc).__name__, type(peer.close_exc).__name__, peer.n_items, peer.status)
        if variant is None:
            ctx.notes["emissions"] = peer.n_items
        if peer.status in (400, 416) and r["kind"] == "file":
            ctx.probe("range_error_response")
        ctx.notes["nothing_emitted"] = not peer.monitor.started and peer.n_items == 0
        self._allowed_exc(ctx, "wsgi", r["kind"], peer.exc, variant, boom, plan)
        self._allowed_exc(ctx, "wsgi", r["kind"], peer.close_exc, variant, boom, plan)
        if variant is None and peer.exc is None:
            if not peer.monitor.started:
                ctx.violate("C05|wsgi|start_response-never-called|%s" % r["kind"], self._ctx_of(plan, variant))


PROP = C05
