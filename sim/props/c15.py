"""C15 - multipart limits are exact and enforced with bounded buffering.

Same feed engine as C01.  Three scenario families:
  limits    - max_form_parts / max_form_memory_size at (exact-1, exact, exact+1, None) for the sync and the
              async helper under the same chunking: 413 iff a limit is exceeded, identical on both;
  defaults  - the request accessors of both interfaces around the default part limit;
  buffering - hostile part contents (one early CR or LF, then a long run with only the other kind of line
              break or none; long runs of dashes) fed in fixed-size chunks; invariant checked every time the
              parser asks for the next chunk: file bytes received - bytes handed to the file sink <= one
              chunk + delimiter + 8, and an over-limit field is rejected no later than that much past the limit.
"""
import asyncio
import inspect

from .. import feed
from ..core import Prop, jsonable
from ..loop import SimDeadlock, SimStepLimit, SimTimeLimit, run_sim
from ..models import multipart as mpm


class SyncSink:
    written = 0        # class-level counters, reset per run
    files = 0

    def __init__(self, filename, headers):
        self.filename = filename
        self.headers = headers
        self.data = bytearray()
        type(self).files += 1

    def write(self, data):
        type(self).written += len(data)
        self.data.extend(data)

    def seek(self, offset):
        pass

    def read(self, size=-1):
        return bytes(self.data)


class AsyncSink(SyncSink):
    written = 0
    files = 0

    async def awrite(self, data):
        self.write(data)

    async def aseek(self, offset):
        pass

    async def aread(self, size=-1):
        return bytes(self.data)


class FutureSink(AsyncSink):
    """awrite()/aseek() hand the work to the executor and return its Future: awaitable, but not a coroutine"""
    written = 0
    files = 0

    def awrite(self, data):
        return asyncio.get_running_loop().run_in_executor(None, self.write, data)

    def aseek(self, offset):
        return asyncio.get_running_loop().run_in_executor(None, self.seek, offset)


class MinimalSink:
    """What the helpers document for file_factory(filename, headers): write and seek. (read is for the harness.)"""

    def __init__(self, filename, headers):
        self.filename, self.headers, self._d = filename, headers, bytearray()

    def write(self, data):
        self._d.extend(data)

    def seek(self, offset):
        pass

    def read(self, size=-1):
        return bytes(self._d)

    def __len__(self):            # reports its size: falsy while empty, still a sink
        return len(self._d)


class MinimalAsyncSink:
    def __init__(self, filename, headers):
        self.filename, self.headers, self._d = filename, headers, bytearray()

    async def awrite(self, data):
        self._d.extend(data)

    async def aseek(self, offset):
        pass

    async def aread(self, size=-1):
        return bytes(self._d)

    def __len__(self):
        return len(self._d)


class C15(Prop):
    id = "C15"
    level = "exploration"
    rule = ("one run = one scenario of a family: 'limits' (form of 0..5 parts, (max parts, max field bytes) drawn from exact-1/exact/"
            "exact+1/None, one seeded chunking, sync and async helper), 'defaults' (323..326 tiny parts through wsgi/asgi Request.form), "
            "'buffering' (a file or field part made of an early CR or LF at offset 0..k followed by 20 KiB..1 MiB with only the other "
            "kind of line break or none, or long dash runs; fixed chunk size; optional field limit); the buffering invariant is "
            "evaluated each time the parser asks for the next chunk; non-trivial = >= 2 chunks delivered; distinct = distinct digests "
            "of (scenario, chunking)")
    assumptions = ("slack = largest chunk + len(CRLF--boundary) + 8 bytes", "the default part limit is read from the helper's signature (the 'configured maximum' of the accessors)",
                   "fields without a memory limit are kept in memory by design and are not subject to the buffering bound")
    components = {"real": ["baize.multipart.MultipartDecoder", "baize.multipart_helper.parse_stream/parse_async_stream", "baize.wsgi.Request.form", "baize.asgi.Request.form",
                           "baize.datastructures.UploadFile"],
                  "stub": ["chunk arrival (instrumented iterator / wsgi.input / ASGI receive)", "file sink (counting file_factory for the helpers; counting wrapper around UploadFile.write for the accessors)",
                           "event loop clock/selector"]}
    hard_probes = ("limits_exceeded_parts", "limits_exceeded_memory", "limits_within", "defaults_over", "defaults_within", "buffering_early_cr", "buffering_early_lf", "buffering_field_limit")
    quick_runs = 150000
    thorough_runs = 1500000
    batch = 500

    # -- plan ----------------------------------------------------------------
    def gen_plan(self, t):
        fam = t.weighted([(5, "limits"), (1, "defaults"), (4, "buffering")])
        if fam == "limits":
            form = mpm.gen_form(t, max_parts=5, file_bias=1)
            if t.draw(4) == 0:
                # names with quoted pairs are legal (C01's statement excludes them, C15's does not): the part kind -
                # and with it what counts against the field limit - must not depend on them
                for p in form["parts"]:
                    if t.draw(2):
                        p["name"] = t.choice(['photo (10" print)', 'a"b', 'q"', '"', 'two "quoted" words', 'back\\slash"x'])
            nparts = len(form["parts"])
            fb = sum(len(p["content"]) for p in form["parts"] if p["kind"] == "field")
            mp = t.choice(["default", nparts - 1, nparts, nparts + 1])
            mm = t.choice([None, fb - 1, fb, fb + 1])
            if isinstance(mp, int) and mp < 0:
                mp = 0
            if isinstance(mm, int) and mm < 0:
                mm = 0
            return {"fam": fam, "form": form, "max_parts": mp, "max_mem": mm,
                    # an over-limit body that is ALSO damaged further on (a part whose header line has no colon / no Content-Disposition):
                    # the limit is crossed first, for every chunking
                    "damaged_tail": t.choice([None, None, None, b"no colon in this header line\r\n\r\nx", b"X-Other: 1\r\n\r\nx"]),
                    # the caller's own upload sink: only the documented write/seek (awrite/aseek) interface
                    "minimal_sink": t.draw(3) == 0}
        if fam == "defaults":
            n = t.choice([323, 324, 325, 326])
            form = {"boundary": "bnd", "preamble": b"", "epilogue": b"", "final_crlf": True,
                    "parts": [{"kind": "field", "name": "f%d" % i, "content": b"v", "extra": None} for i in range(n)]}
            if t.draw(2):
                form["parts"][t.draw(n)] = {"kind": "file", "name": "up", "filename": "a.bin", "content": b"\x00\x01", "ctype": None, "extra": None}
            return {"fam": fam, "form": form, "iface": t.choice(["wsgi", "asgi"])}
        # buffering
        boundary = mpm.gen_boundary(t)
        size = t.choice([20_000, 50_000, 120_000, 300_000]) if t.draw(12) else 1_048_576
        early = t.choice([b"\r", b"\n"])
        off = t.choice([0, 0, 1, 7, 100])
        shape = t.weighted([(3, "none"), (3, "other"), (1, "dashes"), (1, "same-late"), (2, "token")])
        other = b"\n" if early == b"\r" else b"\r"
        if shape == "none":
            run = b"x" * size
        elif shape == "other":
            line = b"y" * t.choice([10, 79, 1000]) + other
            run = (line * (size // len(line) + 1))[:size]
        elif shape == "dashes":
            run = (b"-" * size)
        elif shape == "token":   # '--boundary' in the middle of a line is ordinary data: a delimiter needs a line break before it
            line = b"w" * t.choice([60, 500]) + other
            run = (line * (size // len(line) + 1))[:size]
        else:  # the same kind of break again much later: only the last line may be held back
            run = b"z" * (size // 2) + early + b"z" * (size - size // 2)
        content = mpm.scrub(b"a" * off + early + run, boundary)
        if shape == "token":
            tok = b"q--" + boundary.encode("latin-1") + t.choice([b"q", b"--q", b" q"])
            content = content[:off + 1] + b"pp" + tok + content[off + 1:]
        kind = t.weighted([(3, "file"), (2, "field")])
        part = {"kind": kind, "name": "big", "content": content, "extra": None}
        if kind == "file":
            part.update(filename="big.bin", ctype=None)
        parts = [part]
        if t.draw(2):
            parts.insert(0, {"kind": "field", "name": "small", "content": b"hello", "extra": None})
        if t.draw(3) == 0:
            parts.append({"kind": "field", "name": "tail", "content": b"bye", "extra": None})
        form = {"boundary": boundary, "preamble": b"", "epilogue": b"", "final_crlf": True, "parts": parts}
        limit = None
        if kind == "field":
            limit = t.choice([1000, 10_000, size // 2])
        return {"fam": fam, "form": form, "chunk": t.choice([1000, 4096, 16384, 65536]), "limit": limit, "early": early, "shape": shape,
                "surface": t.choice(["parse_stream", "parse_async_stream", "wsgi_form", "asgi_form"]) if limit is None else t.choice(["parse_stream", "parse_async_stream"])}

    def describe(self, plan, variant=None):
        d = {k: v for k, v in plan.items() if k != "form"}
        f = plan["form"]
        d["form"] = {"boundary": f["boundary"], "nparts": len(f["parts"]),
                     "parts": [{"kind": p["kind"], "name": p["name"], "len": len(p["content"]), "head": jsonable(p["content"][:24])} for p in f["parts"][:6]]}
        return jsonable(d)

    def nontrivial(self, plan, ctx, variant):
        return ctx.notes.get("nchunks", 1) >= 2

    def execute(self, plan, ctx, variant=None):
        getattr(self, "_" + plan["fam"])(plan, ctx)

    # ======================= limits =======================
    def _limits(self, plan, ctx):
        from baize.exceptions import HTTPException
        from baize.multipart_helper import parse_stream
        form = plan["form"]
        body = mpm.encode_form(form)
        exp = mpm.expected_items(form)
        mode, pieces = mpm.chunkings(ctx.sched, body, form)
        ctx.notes["nchunks"] = len(pieces)
        ctx.sch("chunking", mode, [len(p) for p in pieces[:200]], len(pieces))
        default_parts = inspect.signature(parse_stream).parameters["max_form_parts"].default
        mp = default_parts if plan["max_parts"] == "default" else plan["max_parts"]
        mm = plan["max_mem"]
        nparts = len(form["parts"])
        fb = sum(len(p["content"]) for p in form["parts"] if p["kind"] == "field")
        over_parts = nparts > mp
        over_mem = mm is not None and fb > mm
        expect_413 = over_parts or over_mem
        if over_parts:
            ctx.probe("limits_exceeded_parts")
        if over_mem:
            ctx.probe("limits_exceeded_memory")
        if not expect_413:
            ctx.probe("limits_within")
        kw = {}
        if plan["max_parts"] != "default":
            kw["max_form_parts"] = mp
        kw["max_form_memory_size"] = mm
        if expect_413 and plan.get("damaged_tail"):
            ctx.probe("limits_exceeded_then_damaged")
            closing = b"--" + form["boundary"].encode("latin-1") + b"--"
            at = body.rfind(closing)
            tail = b"--" + form["boundary"].encode("latin-1") + b"\r\n" + plan["damaged_tail"] + b"\r\n" + body[at:]
            pieces = list(pieces)
            # the damaged part rides in the same chunk as whatever preceded the closing delimiter
            cut, acc = at, []
            for p_ in pieces:
                if cut <= 0:
                    break
                acc.append(p_[:cut])
                cut -= len(p_)
            acc[-1:] = [acc[-1] + tail] if acc else [tail]
            pieces = acc
        if plan.get("minimal_sink"):
            ctx.probe("minimal_upload_sink")
        outcomes = {}
        for surf in ("parse_stream", "parse_async_stream"):
            try:
                if surf == "parse_stream":
                    if plan.get("minimal_sink"):
                        kw["file_factory"] = MinimalSink
                    got = feed.items_of_sync(feed.run_parse_stream(form["boundary"], pieces, **kw))
                else:
                    if plan.get("minimal_sink"):
                        kw["file_factory"] = MinimalAsyncSink
                    got = feed.run_parse_async_stream(ctx, form["boundary"], pieces, None, post=feed.items_of_async, **kw)
                outcomes[surf] = ("ok", got)
            except HTTPException as e:
                outcomes[surf] = ("http", e.status_code)
            except (SimDeadlock, SimTimeLimit, SimStepLimit) as e:
                ctx.violate("C15|%s|hang|%s" % (surf, type(e).__name__), str(e))
                continue
            except Exception as e:
                ctx.violate("C15|%s|exception|%s" % (surf, type(e).__name__), repr(e))
                continue
            o = outcomes[surf]
            ctx.ev("out", surf, o[0], o[1] if o[0] == "http" else len(o[1]))
            cfg = "parts %d/max %s, field bytes %d/max %s, chunking %s %r" % (nparts, mp, fb, mm, mode, [len(p) for p in pieces[:30]])
            if expect_413:
                if o != ("http", 413):
                    ctx.violate("C15|%s|limit-not-enforced|%s" % (surf, "parts" if over_parts else "memory"), "expected 413, got %r; %s" % (o if o[0] == "http" else "ok", cfg))
            else:
                if o[0] == "http":
                    ctx.violate("C15|%s|rejected-within-limits|%s" % (surf, o[1]), "expected success; %s" % cfg)
                elif o[1] != exp:
                    ctx.violate("C15|%s|wrong-result-within-limits" % surf, "got %r expected %r; %s" % (o[1], exp, cfg))
        if len(outcomes) == 2:
            a, b = outcomes["parse_stream"], outcomes["parse_async_stream"]
            if (a[0], a[1] if a[0] == "http" else None) != (b[0], b[1] if b[0] == "http" else None):
                ctx.violate("C15|sync-async-differ", "%r vs %r" % (a[:2] if a[0] == "http" else "ok", b[:2] if b[0] == "http" else "ok"))
        ctx.actors = 2

    # ======================= defaults =======================
    def _defaults(self, plan, ctx):
        from baize.exceptions import HTTPException
        from baize.multipart_helper import parse_async_stream, parse_stream
        form = plan["form"]
        body = mpm.encode_form(form)
        n = len(form["parts"])
        mode, pieces = mpm.chunkings(ctx.sched, body, None)
        if len(pieces) > 400:
            pieces = [body[i:i + 97] for i in range(0, len(body), 97)]
        ctx.notes["nchunks"] = len(pieces)
        ctx.sch("chunking", mode, len(pieces))
        helper = parse_stream if plan["iface"] == "wsgi" else parse_async_stream
        default_parts = inspect.signature(helper).parameters["max_form_parts"].default
        expect_413 = n > default_parts
        ctx.probe("defaults_over" if expect_413 else "defaults_within")
        ct = mpm.content_type_header(form)
        surf = plan["iface"] + "_form"
        try:
            if plan["iface"] == "wsgi":
                # half of the WSGI requests arrive without CONTENT_LENGTH (a de-chunked upload): the input simply ends
                no_cl = ctx.sched.draw(2) == 0
                if no_cl:
                    ctx.probe("wsgi_body_without_content_length")
                got, _ = feed.run_wsgi_form(ctx, ct, pieces, no_content_length=no_cl)
            else:
                got, _ = feed.run_asgi_form(ctx, ct, pieces)
            o = ("ok", got)
        except HTTPException as e:
            o = ("http", e.status_code)
        except (SimDeadlock, SimTimeLimit, SimStepLimit) as e:
            ctx.violate("C15|%s|hang|%s" % (surf, type(e).__name__), str(e))
            return
        except Exception as e:
            ctx.violate("C15|%s|exception|%s" % (surf, type(e).__name__), repr(e))
            return
        ctx.ev("out", surf, o[0], o[1] if o[0] == "http" else len(o[1]))
        if expect_413 and o != ("http", 413):
            ctx.violate("C15|%s|default-part-limit-not-enforced" % surf, "%d parts, default limit %d, got %s" % (n, default_parts, o[0]))
        if not expect_413:
            if o[0] == "http":
                ctx.violate("C15|%s|rejected-within-default-limit|%s" % (surf, o[1]), "%d parts, default limit %d" % (n, default_parts))
            elif o[1] != mpm.expected_items(form):
                ctx.violate("C15|%s|wrong-result-within-default-limit" % surf, "%d parts" % n)
        ctx.actors = 2

    # ======================= buffering =======================
    def _buffering(self, plan, ctx):
        from baize.datastructures import UploadFile
        from baize.exceptions import HTTPException
        form = plan["form"]
        body = mpm.encode_form(form)
        spans = mpm.content_spans(form)
        c = plan["chunk"]
        pieces = [body[i:i + c] for i in range(0, len(body), c)]
        ctx.notes["nchunks"] = len(pieces)
        ctx.sch("chunks", c, len(pieces))
        ctx.probe("buffering_early_cr" if plan["early"] == b"\r" else "buffering_early_lf")
        limit = plan["limit"]
        if limit is not None:
            ctx.probe("buffering_field_limit")
        slack = c + len(form["boundary"]) + 4 + 8
        surf = plan["surface"]
        state = {"delivered": 0, "worst_pending": 0, "worst_field_over": 0, "asks": 0, "violated": None, "raised_at": None}
        SyncSink.written = AsyncSink.written = FutureSink.written = 0
        sink_cls = FutureSink if (surf == "parse_async_stream" and len(form["boundary"]) % 3 == 0) else AsyncSink
        if sink_cls is FutureSink:
            ctx.probe("sink_returns_future")
        counted = {"upload": 0}

        def file_bytes_upto(d):
            return sum(max(0, min(d, e) - s) for k, s, e in spans if k == "file")

        def field_bytes_upto(d):
            return sum(max(0, min(d, e) - s) for k, s, e in spans if k == "field")

        def on_ask():
            """The parser asks for the next chunk: everything delivered so far has been processed."""
            state["asks"] += 1
            d = state["delivered"]
            written = SyncSink.written + AsyncSink.written + FutureSink.written + counted["upload"]
            pending = file_bytes_upto(d) - written
            state["worst_pending"] = max(state["worst_pending"], pending)
            if limit is not None:
                over = field_bytes_upto(d) - limit
                state["worst_field_over"] = max(state["worst_field_over"], over)

        def chunks():
            for p in pieces:
                on_ask()
                state["delivered"] += len(p)
                yield p
            on_ask()

        async def achunks():
            for p in pieces:
                on_ask()
                state["delivered"] += len(p)
                yield p
            on_ask()

        kw = {"max_form_memory_size": limit} if limit is not None else {}
        orig_write = UploadFile.write

        def counting_write(self_, data):
            counted["upload"] += len(data)
            return orig_write(self_, data)

        outcome = None
        got_items = None
        try:
            try:
                if surf == "parse_stream":
                    from baize.multipart_helper import parse_stream
                    res = parse_stream(chunks(), form["boundary"].encode("latin-1"), "utf8", file_factory=SyncSink, **kw)
                    outcome = ("ok", len(res))
                    got_items = [(k, v if isinstance(v, str) else ("file", v.filename, dict(v.headers), bytes(v.data))) for k, v in res]
                elif surf == "parse_async_stream":
                    from baize.multipart_helper import parse_async_stream

                    async def scenario(loop):
                        return await parse_async_stream(achunks(), form["boundary"].encode("latin-1"), "utf8", file_factory=sink_cls, **kw)

                    res, _ = run_sim(scenario, ctx.sched, ctx, vcap=1e6, step_cap=2_000_000)
                    outcome = ("ok", len(res))
                    got_items = [(k, v if isinstance(v, str) else ("file", v.filename, dict(v.headers), bytes(v.data))) for k, v in res]
                else:
                    UploadFile.write = counting_write
                    ct = mpm.content_type_header(form)
                    if surf == "wsgi_form":
                        from baize.wsgi import Request
                        from ..httpreq import AbstractRequest
                        from ..wsgi_peer import WsgiPeer
                        peer = WsgiPeer(ctx, ctx.sched, AbstractRequest("POST", "/", headers=[("content-type", ct)], body=b""), short_reads=False)
                        inp = feed.ChunkedInput(pieces)

                        def on_read(delivered):
                            state["delivered"] = delivered
                            on_ask()

                        inp.on_read = on_read
                        peer.environ["wsgi.input"] = inp
                        req = Request(peer.environ)
                        try:
                            f = req.form
                            outcome = ("ok", len(f.multi_items()))
                        finally:
                            req.close()
                    else:
                        from baize.asgi import Request
                        from ..asgi_peer import AsgiHttpPeer
                        from ..httpreq import AbstractRequest

                        async def scenario(loop):
                            msgs = [{"type": "http.request", "body": p, "more_body": i < len(pieces) - 1, "delay": 0.0} for i, p in enumerate(pieces)]
                            peer = AsgiHttpPeer(loop, ctx, ctx.sched, AbstractRequest("POST", "/", headers=[("content-type", ct)], body=b""), msgs, complete_disconnects=False)
                            real_receive = peer.receive

                            async def receive():
                                on_ask()
                                m = await real_receive()
                                state["delivered"] += len(m.get("body", b"") or b"")
                                return m

                            req = Request(peer.scope, receive, peer.send)
                            try:
                                f = await req.form
                                return len(f.multi_items())
                            finally:
                                await req.close()

                        n, _ = run_sim(scenario, ctx.sched, ctx, vcap=1e6, step_cap=2_000_000)
                        outcome = ("ok", n)
                        on_ask()
            except HTTPException as e:
                outcome = ("http", e.status_code)
                state["raised_at"] = state["delivered"]
            except (SimDeadlock, SimTimeLimit, SimStepLimit) as e:
                ctx.violate("C15|%s|hang|%s" % (surf, type(e).__name__), str(e))
                return
            except Exception as e:
                ctx.violate("C15|%s|exception|%s" % (surf, type(e).__name__), repr(e))
                return
        finally:
            UploadFile.write = orig_write
        ctx.ev("out", surf, outcome, state["worst_pending"], state["worst_field_over"], state["asks"])
        desc = "%s part, %d bytes, early %r then %s; chunk %d, boundary %d chars, slack %d" % (
            [p for p in form["parts"] if p["name"] == "big"][0]["kind"], len([p for p in form["parts"] if p["name"] == "big"][0]["content"]),
            plan["early"], plan["shape"], c, len(form["boundary"]), slack)
        if got_items is not None and got_items != mpm.expected_items(form):
            ctx.violate("C15|%s|wrong-result-for-hostile-part|%s" % (surf, plan["shape"]), "decoded parts differ from the encoded ones; " + desc)
        if limit is None:
            if outcome[0] != "ok":
                ctx.violate("C15|%s|rejected-without-limit|%s" % (surf, outcome[1]), desc)
            if state["worst_pending"] > slack:
                ctx.violate("C15|%s|unbounded-buffering|file-part|early-%s-%s" % (surf, "CR" if plan["early"] == b"\r" else "LF", plan["shape"]),
                            "%d file bytes were received but not yet handed to the file sink when the parser asked for more; %s" % (state["worst_pending"], desc))
        else:
            fb = sum(e - s for k, s, e in spans if k == "field")
            if fb > limit:
                if outcome != ("http", 413):
                    ctx.violate("C15|%s|limit-not-enforced|memory" % surf, "field bytes %d > limit %d, outcome %r; %s" % (fb, limit, outcome, desc))
                elif state["worst_field_over"] > slack:
                    ctx.violate("C15|%s|late-413|field-part|early-%s-%s" % (surf, "CR" if plan["early"] == b"\r" else "LF", plan["shape"]),
                                "the parser kept asking for chunks until %d field bytes past the limit %d had been delivered (413 only then); %s" % (state["worst_field_over"], limit, desc))
            elif outcome[0] != "ok":
                ctx.violate("C15|%s|rejected-within-limits|%s" % (surf, outcome[1]), desc)
        ctx.actors = 2


PROP = C15
