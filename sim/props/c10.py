"""C10 - the request body is read once, completely, and consistently cached.

ASGI: 1..4 concurrent tasks run access programs over {body, stream, json, form, close}
against a scripted receive() channel (chunking, empty messages, absent keys, optional
disconnect at any position, arrival latencies).  WSGI: one sequential program against
wsgi.input with seeded short reads.
"""
import asyncio
import json

from ..asgi_peer import AsgiHttpPeer
from ..core import Prop
from ..httpreq import AbstractRequest
from ..loop import SimDeadlock, SimStepLimit, SimTimeLimit, run_sim
from ..models import multipart as mpm
from ..wsgi_peer import WsgiPeer

OPS = ["body", "stream", "json", "form", "stream", "body", "close"]
DELAYS = (0.0, 0.0, 0.1, 0.3, 0.5)
MSG_DELAYS = (0.0, 0.0, 0.1, 0.5)


def gen_body(t):
    kind = t.weighted([(3, "json"), (3, "urlenc"), (3, "mp"), (2, "other"), (1, "badjson"), (1, "empty")])
    form = None
    if kind == "json":
        val = {"a": [1, 2, t.draw(10)], "k": t.choice(["v", "é", ""])}
        body = json.dumps(val).encode("utf-8")
        ct = t.choice(["application/json", "application/json; charset=utf-8"])
    elif kind == "badjson":
        body = t.choice([b"{", b"[1,", b"nope", b""])
        ct = "application/json"
    elif kind == "urlenc":
        body = ("a=1&b=%d&c=%s" % (t.draw(10), t.choice(["x", "%20y", ""]))).encode()
        ct = "application/x-www-form-urlencoded"
    elif kind == "mp":
        form = mpm.gen_form(t, max_parts=3, file_bias=1, allow_pre_epi=False)
        body = mpm.encode_form(form)
        ct = mpm.content_type_header(form)
    elif kind == "empty":
        body = b""
        ct = t.choice(["text/plain", "application/octet-stream"])
    else:
        body = t.bytes_of(t.draw(24))
        ct = t.choice(["text/plain", "application/octet-stream", ""])
    return kind, body, ct, form


def gen_program(t, maxlen=4):
    prog = []
    for _ in range(1 + t.draw(maxlen)):
        op = t.choice(OPS)
        arg = None
        if op == "stream":
            arg = t.choice([None, None, 0, 1, 2])
        prog.append((op, arg, t.choice(DELAYS)))
    return prog


class C10(Prop):
    id = "C10"
    level = "exploration"
    rule = ("one run = one generated request body (json / urlencoded / multipart / raw / malformed json / empty), one chunking "
            "into server messages (random cuts, empty messages, absent body/more_body keys, optional http.disconnect at any "
            "position, arrival latencies) and 1..4 concurrent access programs (ASGI) or one sequential program with short "
            "reads and a stream chunk-size knob (WSGI); non-trivial = >=2 tasks interleaved or a fault (disconnect, short "
            "read, latency) fired; distinct = distinct SHA-1 of the scheduling-event sequence")
    assumptions = ("SimLoop keeps asyncio's FIFO call_soon order; only timer ties and external latencies are permuted",
                   "partial stream() consumers keep their generator alive until the end of the run (no GC-time finalisation)",
                   "WSGI has no documented disconnect error, so the disconnect clause is checked on ASGI only")
    components = {"real": ["baize.asgi.requests.Request", "baize.wsgi.requests.Request", "baize.utils.cached_property",
                           "baize.multipart*", "baize.datastructures.FormData/UploadFile", "asyncio tasks/futures (CPython)"],
                  "stub": ["event-loop selector/clock (SimLoop)", "ASGI server receive() (AsgiHttpPeer)", "wsgi.input (SimInput)"]}
    hard_probes = ("disconnect", "asgi_multi_task", "shared_body_future", "wsgi_run", "short_read", "wsgi_body_without_content_length")
    quick_runs = 300000
    thorough_runs = 3000000
    batch = 500

    # -- plan ----------------------------------------------------------------
    def gen_plan(self, t):
        iface = t.weighted([(2, "asgi"), (1, "wsgi")])
        kind, body, ct, form = gen_body(t)
        plan = {"iface": iface, "kind": kind, "body": body, "ct": ct, "form": form}
        if iface == "asgi":
            k = t.draw(5)
            cuts = sorted(t.draw(len(body) + 1) for _ in range(k))
            plan["alias_events"] = False
            if kind == "other" and t.draw(3) == 0:
                # an upload of equal blocks from a server / test client / recording layer that hands over the SAME event
                # object for equal events (messages = [block, block, ..., last]); the events are the server's, not the library's
                block = t.choice([b"0123456789abcdef", b"x", bytes(range(32))])
                nb = 2 + t.draw(3)
                body = plan["body"] = block * nb + t.choice([b"", b"tail"])
                cuts = [len(block) * (i + 1) for i in range(nb)]
                plan["alias_events"] = True
            pieces = [body[i:j] for i, j in zip([0] + cuts, cuts + [len(body)])]
            msgs = []
            for i, p in enumerate(pieces):
                m = {"type": "http.request", "body": p, "more_body": i < len(pieces) - 1, "delay": t.choice(MSG_DELAYS)}
                if t.draw(6) == 0:
                    m["as_bytearray"] = True      # some servers hand over their receive buffer
                omit = []
                if not p and t.draw(3) == 0:
                    omit.append("body")
                if not m["more_body"] and t.draw(3) == 0:
                    omit.append("more_body")
                if omit:
                    m["omit"] = omit
                msgs.append(m)
            disc = None
            if t.draw(4) == 0:
                disc = t.draw(len(msgs))           # messages disc.. are replaced by a disconnect
                msgs = msgs[:disc]
                for m in msgs:
                    m["more_body"] = True
                    if "omit" in m and "more_body" in m["omit"]:
                        m["omit"].remove("more_body")
                msgs.append({"type": "http.disconnect", "delay": t.choice(MSG_DELAYS)})
            plan["msgs"] = msgs
            plan["disc"] = disc
            ntasks = t.weighted([(3, 1), (3, 2), (2, 3), (1, 4)])
            plan["tasks"] = [gen_program(t) for _ in range(ntasks)]
        else:
            plan["chunk_size"] = t.choice([None, None, 1, 2, 3, 7, 4096, -1])      # -1: "read everything", as for file objects
            plan["short"] = t.draw(3) != 0
            # a de-chunked "Transfer-Encoding: chunked" upload or an HTTP/2 front end: the server hands over a body without Content-Length
            plan["content_length"] = t.weighted([(3, "exact"), (1, "absent"), (1, "chunked")])
            plan["tasks"] = [gen_program(t, 5)]
        # a body may travel with any method (a GET with a body is unusual, not illegal)
        plan["method"] = t.choice(["POST", "POST", "POST", "PUT", "GET", "DELETE", "PATCH"])
        plan["edits_items"] = t.draw(4) == 0
        plan["asgi_content_length"] = t.draw(3) != 0
        return plan

    def describe(self, plan, variant=None):
        d = {k: v for k, v in plan.items() if k != "form"}
        from ..core import jsonable
        return jsonable(d)

    def nontrivial(self, plan, ctx, variant):
        return bool(ctx.faults) or len(plan["tasks"]) >= 2

    # -- expectations ------------------------------------------------------------
    def _expect(self, plan):
        body, kind, ct = plan["body"], plan["kind"], plan["ct"]
        exp = {"json": None, "form": None}
        main = ct.split(";")[0].strip()
        if main == "application/json":
            try:
                exp["json"] = ("ok", json.loads(body.decode("utf-8")))
            except ValueError:
                exp["json"] = ("exc", "MalformedJSON")
        else:
            exp["json"] = ("exc", "UnsupportedMediaType")
        if kind == "mp":
            exp["form"] = ("ok", mpm.expected_items(plan["form"]))
        elif kind == "urlenc":
            from urllib.parse import parse_qsl
            exp["form"] = ("ok", parse_qsl(body.decode("latin-1"), keep_blank_values=True))
        else:
            exp["form"] = ("exc", "UnsupportedMediaType")
        return exp

    # -- execute -------------------------------------------------------------
    def execute(self, plan, ctx, variant=None):
        if plan["iface"] == "asgi":
            self._asgi(plan, ctx)
        else:
            self._wsgi(plan, ctx)

    # ======================= ASGI =======================
    def _asgi(self, plan, ctx):
        from baize.asgi import ClientDisconnect, Request
        from baize.datastructures import UploadFile
        from baize.exceptions import HTTPException

        body = plan["body"]
        exp = self._expect(plan)
        disc = plan["disc"] is not None
        results = []
        keep = []
        ctx.actors = len(plan["tasks"])
        if len(plan["tasks"]) > 1:
            ctx.probe("asgi_multi_task")

        items_cache = {}

        async def form_items(form):
            # uploads may have been closed by a `close` access in the meantime: read once, remember
            if id(form) in items_cache:
                now = [k for k, _ in form.multi_items()]
                if now != [k for k, _ in items_cache[id(form)]]:
                    ctx.violate("C10|asgi|form|cached-form-changed-by-editing-the-list-it-handed-out", "field names now %r, first read %r" % (now, [k for k, _ in items_cache[id(form)]]))
                return items_cache[id(form)]
            out = []
            for k, v in form.multi_items():
                if isinstance(v, UploadFile):
                    try:
                        await v.aseek(0)
                        data = await v.aread()
                        await v.aseek(0)
                    except ValueError:
                        data = "<closed>"
                    out.append((k, ("file", v.filename, dict(v.headers), data)))
                else:
                    out.append((k, v))
            items_cache[id(form)] = out
            if plan.get("edits_items"):
                # the application works on the list it was handed (drops what it has dealt with, adds a computed field)
                mine = form.multi_items()
                del mine[:1]
                mine.append(("computed", "1"))
                ctx.probe("caller_edits_its_items_list")
            return out

        harness_cancel = {"on": False}

        async def scenario(loop):
            hdrs = [("content-type", plan["ct"])] if plan["ct"] else []
            if plan.get("asgi_content_length"):
                # servers pass the request's Content-Length on; the messages (and only they) say where the body ends
                hdrs.append(("content-length", str(len(body))))
            req_abs = AbstractRequest(plan.get("method", "POST"), "/", headers=hdrs, body=body)
            peer = AsgiHttpPeer(loop, ctx, ctx.sched, req_abs, plan["msgs"], recv_lat_extra=(0.0, 0.0, 0.05, 0.2),
                                complete_disconnects=False, alias_equal_events=plan.get("alias_events", False))
            if plan.get("alias_events"):
                ctx.probe("server_reuses_event_objects")
            req = Request(peer.scope, peer.receive, peer.send)

            async def prog(tid, ops):
                for step, (op, arg, dl) in enumerate(ops):
                    if dl:
                        await asyncio.sleep(dl)
                    ctx.sch("op", tid, op, arg)
                    try:
                        if op == "body":
                            shared = "body" in req.__dict__ and not req.__dict__["body"].done()
                            if shared:
                                ctx.probe("shared_body_future")
                            v = await req.body
                            r = ("ok", v, None)
                        elif op == "json":
                            v = await req.json
                            r = ("ok", v, id(v))
                        elif op == "form":
                            v = await req.form
                            r = ("ok", await form_items(v), id(v))
                            keep.append(v)
                        elif op == "stream":
                            chunks = []
                            g = req.stream()
                            keep.append(g)
                            if arg == 0:
                                r = ("ok", [], None)   # never iterated: must not consume anything
                            else:
                                async for c in g:
                                    chunks.append(c)
                                    if arg is not None and len(chunks) >= arg:
                                        break
                                r = ("ok", chunks, None)
                        else:
                            await req.close()
                            r = ("ok", None, None)
                    except (RuntimeError, ClientDisconnect, HTTPException) as e:
                        r = ("exc", type(e).__name__, str(e))
                    except asyncio.CancelledError:
                        if harness_cancel["on"]:
                            raise
                        # nobody in this scenario cancels anything: an access that ends cancelled is a wrong outcome
                        r = ("bad", "CancelledError", "the access was cancelled although no task was cancelled by the application")
                    except Exception as e:  # any other exception type is a violation
                        r = ("bad", type(e).__name__, str(e))
                    results.append((tid, step, op, arg) + r)
                    ctx.ev("res", tid, step, op, arg, r[0], r[1] if r[0] != "ok" else (r[1] if op != "form" else len(r[1])))

            tasks = [loop.create_task(prog(i, p), name="prog%d" % i) for i, p in enumerate(plan["tasks"])]
            done, pend = await asyncio.wait(tasks, timeout=500.0)
            snap = {"pend": len(pend), "recv_calls": peer.recv_calls, "delivered": len(peer.recv_returns)}
            for tk in done:
                if tk.cancelled():
                    ctx.violate("C10|asgi|program-crashed|CancelledError", "an access program ended cancelled")
                elif tk.exception() is not None:
                    ctx.violate("C10|asgi|program-crashed|%s" % type(tk.exception()).__name__, repr(tk.exception()))
            harness_cancel["on"] = True
            for tk in pend:
                tk.cancel()
            # release what partial stream consumers left behind (after the snapshot)
            for g in keep:
                if hasattr(g, "aclose"):
                    try:
                        await g.aclose()
                    except BaseException:
                        pass
            try:
                await req.close()
            except BaseException:
                pass
            return snap

        try:
            snap, loop = run_sim(scenario, ctx.sched, ctx, vcap=2000.0)
        except (SimDeadlock, SimTimeLimit, SimStepLimit) as e:
            ctx.violate("C10|asgi|hang|%s" % type(e).__name__, "an access never completed: %s" % e)
            return
        if loop.errors:
            ctx.violate("C10|asgi|loop-error", repr(loop.errors[:3]))

        msgs = plan["msgs"]
        # (i) receive() calls never exceed the messages up to and including the final / disconnect one
        final = next((i for i, m in enumerate(msgs) if m["type"] == "http.disconnect" or not m.get("more_body")), len(msgs) - 1)
        if snap["recv_calls"] > final + 1:
            ctx.violate("C10|asgi|over-read", "receive() called %d times, only %d messages up to the final one" % (snap["recv_calls"], final + 1))
        if snap["pend"]:
            ctx.violate("C10|asgi|hang|pending", "%d access programs still pending after 500 virtual seconds" % snap["pend"])
        self._judge(plan, ctx, exp, results, "asgi", disc)
        if len(plan["tasks"]) == 1 and not snap["pend"]:
            self._sequential_model(plan, ctx, exp, results, "asgi")

    # ---------------------------------------------------------------------
    def _judge(self, plan, ctx, exp, results, iface, disc):
        body = plan["body"]
        allowed_exc = {"body": {"RuntimeError"}, "stream": {"RuntimeError"}, "json": {"RuntimeError"}, "form": {"RuntimeError"},
                       "close": {"RuntimeError"}}
        ids = {"json": set(), "form": set()}
        has_close = any(op == "close" for prog in plan["tasks"] for op, _, _ in prog)
        for tid, step, op, arg, kind, val, extra in results:
            where = "%s|%s" % (iface, op)
            if kind == "bad":
                ctx.violate("C10|%s|unexpected-exception|%s" % (where, val), "%s: %s" % (val, extra))
                continue
            if kind == "exc":
                ok = {"RuntimeError"}
                if val == "RuntimeError" and "Stream consumed" not in extra:
                    ctx.violate("C10|%s|wrong-runtime-error" % where, extra)
                if disc and iface == "asgi":
                    ok = ok | {"ClientDisconnect"}
                if op in ("json",):
                    ok = ok | ({exp["json"][1]} if exp["json"][0] == "exc" else set())
                if op == "form":
                    ok = ok | ({exp["form"][1]} if exp["form"][0] == "exc" else set())
                if op == "close":
                    ok = set()      # close() never raises
                if val not in ok:
                    ctx.violate("C10|%s|exception-not-allowed|%s" % (where, val), "got %s(%s), allowed %s" % (val, extra, sorted(ok)))
                continue
            # successful results
            if op == "body":
                if type(val) is not bytes:
                    ctx.violate("C10|%s|body-not-bytes|%s" % (where, type(val).__name__), "request.body returned a %s" % type(val).__name__)
                if val != body:
                    ctx.violate("C10|%s|wrong-body" % where, "got %r expected %r" % (val[:80], body[:80]))
                if disc and iface == "asgi":
                    ctx.violate("C10|%s|truncated-body-after-disconnect" % where, "body returned %r although the client disconnected before the final chunk" % (val[:80],))
            elif op == "stream":
                joined = b"".join(val)
                if arg is None:
                    if joined != body:
                        ctx.violate("C10|%s|wrong-stream" % where, "got %r expected %r" % (joined[:80], body[:80]))
                    if disc and iface == "asgi":
                        ctx.violate("C10|%s|stream-ended-normally-after-disconnect" % where, repr(joined[:80]))
                elif not body.startswith(joined):
                    ctx.violate("C10|%s|stream-not-a-prefix" % where, "got %r of %r" % (joined[:80], body[:80]))
            elif op == "json":
                if exp["json"][0] != "ok" or val != exp["json"][1]:
                    ctx.violate("C10|%s|wrong-json" % where, "got %r expected %r" % (val, exp["json"]))
                if disc and iface == "asgi":
                    ctx.violate("C10|%s|json-after-disconnect" % where, repr(val))
                ids["json"].add(extra)
            elif op == "form":
                if exp["form"][0] != "ok" or not _same_items(val, exp["form"][1], has_close):
                    ctx.violate("C10|%s|wrong-form" % where, "got %r expected %r" % (val, exp["form"]))
                if disc and iface == "asgi":
                    ctx.violate("C10|%s|form-after-disconnect" % where, repr(val)[:100])
                ids["form"].add(extra)
        for k, s in ids.items():
            if len(s) > 1:
                ctx.violate("C10|%s|%s|not-identical-on-repetition" % (iface, k), "%d distinct result objects" % len(s))

    # ---------------------------------------------------------------------
    def _sequential_model(self, plan, ctx, exp, results, iface):
        """Exact prediction for a single sequential program."""
        body = plan["body"]
        disc = plan.get("disc") is not None and iface == "asgi"
        kind = plan["kind"]
        st = {"consumed": False, "body": None, "json": None, "form": None}
        asgi = iface == "asgi"

        def consume():
            # somebody starts reading the channel
            if st["consumed"]:
                return ("exc", "RuntimeError")
            st["consumed"] = True
            return ("exc", "ClientDisconnect") if disc else ("ok", body)

        def m_stream_source():
            """What iterating stream() to the end gives."""
            if st["body"] is not None and (st["body"][0] == "ok" or asgi):
                return st["body"]
            return consume()

        def m_body():
            if st["body"] is not None and (asgi or st["body"][0] == "ok"):
                return st["body"]
            r = consume()
            st["body"] = r
            return r

        preds = []
        for op, arg, dl in plan["tasks"][0]:
            if op == "body":
                p = m_body()
            elif op == "stream":
                if arg == 0:
                    p = ("ok", None)
                elif arg is None:
                    p = m_stream_source()
                else:
                    # partial consumption: takes ownership if it starts reading
                    if st["body"] is not None and (st["body"][0] == "ok" or asgi):
                        p = st["body"] if st["body"][0] == "exc" else ("prefix", None)
                    elif st["consumed"]:
                        p = ("exc", "RuntimeError")
                    else:
                        st["consumed"] = True
                        p = ("prefix-or-disc", None)
            elif op == "json":
                if st["json"] is not None and (asgi or st["json"][0] == "ok"):
                    p = st["json"]
                else:
                    if exp["json"] == ("exc", "UnsupportedMediaType"):
                        p = exp["json"]
                    else:
                        b = m_body()
                        p = exp["json"] if b[0] == "ok" else b
                    st["json"] = p
            elif op == "form":
                if st["form"] is not None and (asgi or st["form"][0] == "ok"):
                    p = st["form"]
                else:
                    if kind == "mp":
                        s = m_stream_source()
                        p = exp["form"] if s[0] == "ok" else s
                    elif kind == "urlenc":
                        b = m_body()
                        p = exp["form"] if b[0] == "ok" else b
                    else:
                        p = exp["form"]
                    st["form"] = p
            else:  # close: "can always be called, regardless of whether you use form or not"
                p = ("ok", None)
            preds.append(p)
        for (tid, step, op, arg, kind_, val, extra), p in zip(results, preds):
            got = ("ok",) if kind_ == "ok" else ("exc", val)
            if p[0] in ("ok", "prefix"):
                good = got == ("ok",)
            elif p[0] == "prefix-or-disc":
                good = got == ("ok",) or got == ("exc", "ClientDisconnect")
            elif p[0] == "ok-or":
                good = got == ("ok",) or got == ("exc", p[1])
            else:
                good = got == ("exc", p[1])
            if not good:
                ctx.violate("C10|%s|%s|sequential-model-mismatch|step-predicted-%s-got-%s" % (iface, op, p[0] if p[0] != "exc" else p[1], "ok" if got == ("ok",) else got[1]),
                            "step %d of %r: model predicts %r, implementation gave %r" % (step, plan["tasks"][0], p[:2], (kind_, val if kind_ != "ok" else "...")))

    # ======================= WSGI =======================
    def _wsgi(self, plan, ctx):
        from baize.datastructures import UploadFile
        from baize.exceptions import HTTPException
        from baize.wsgi import Request

        ctx.probe("wsgi_run")
        body = plan["body"]
        exp = self._expect(plan)
        hdrs = [("content-type", plan["ct"])] if plan["ct"] else []
        cl = plan.get("content_length", "exact")
        if cl == "exact":
            hdrs.append(("content-length", str(len(body))))
        elif cl == "chunked":
            hdrs.append(("transfer-encoding", "chunked"))
        if cl != "exact":
            ctx.probe("wsgi_body_without_content_length")
        req_abs = AbstractRequest(plan.get("method", "POST"), "/", headers=hdrs, body=body)
        peer = WsgiPeer(ctx, ctx.sched, req_abs, short_reads=plan["short"])
        req = Request(peer.environ)
        results = []
        keep = []
        ctx.actors = 1

        items_cache = {}

        def form_items(form):
            if id(form) in items_cache:
                now = [k for k, _ in form.multi_items()]
                if now != [k for k, _ in items_cache[id(form)]]:
                    ctx.violate("C10|wsgi|form|cached-form-changed-by-editing-the-list-it-handed-out", "field names now %r, first read %r" % (now, [k for k, _ in items_cache[id(form)]]))
                return items_cache[id(form)]
            out = []
            for k, v in form.multi_items():
                if isinstance(v, UploadFile):
                    try:
                        v.seek(0)
                        data = v.read()
                        v.seek(0)
                    except ValueError:
                        data = "<closed>"
                    out.append((k, ("file", v.filename, dict(v.headers), data)))
                else:
                    out.append((k, v))
            items_cache[id(form)] = out
            if plan.get("edits_items"):
                # the application works on the list it was handed (drops what it has dealt with, adds a computed field)
                mine = form.multi_items()
                del mine[:1]
                mine.append(("computed", "1"))
                ctx.probe("caller_edits_its_items_list")
            return out

        for step, (op, arg, dl) in enumerate(plan["tasks"][0]):
            ctx.sch("op", 0, op, arg)
            try:
                if op == "body":
                    r = ("ok", req.body, None)
                elif op == "json":
                    v = req.json
                    r = ("ok", v, id(v))
                elif op == "form":
                    v = req.form
                    keep.append(v)
                    r = ("ok", form_items(v), id(v))
                elif op == "stream":
                    g = req.stream() if plan["chunk_size"] is None else req.stream(plan["chunk_size"])
                    keep.append(g)
                    chunks = []
                    if arg != 0:
                        for c in g:
                            chunks.append(c)
                            if plan["chunk_size"] is not None and plan["chunk_size"] > 0 and len(c) > plan["chunk_size"] and "body" not in req.__dict__:
                                ctx.violate("C10|wsgi|stream|chunk-larger-than-chunk_size", "%d > %d" % (len(c), plan["chunk_size"]))
                            if arg is not None and len(chunks) >= arg:
                                break
                    r = ("ok", chunks, None)
                else:
                    req.close()
                    r = ("ok", None, None)
            except (RuntimeError, HTTPException) as e:
                r = ("exc", type(e).__name__, str(e))
            except Exception as e:
                r = ("bad", type(e).__name__, str(e))
            results.append((0, step, op, arg) + r)
            ctx.ev("res", step, op, arg, r[0], r[1] if r[0] != "ok" else (r[1] if op != "form" else len(r[1])))
        if peer.input.reads_after_eof:
            ctx.violate("C10|wsgi|over-read", "wsgi.input.read() called %d times after it had returned EOF" % peer.input.reads_after_eof)
        for g in keep:
            if hasattr(g, "close"):
                g.close()
        self._judge(plan, ctx, exp, results, "wsgi", False)
        self._sequential_model(plan, ctx, exp, results, "wsgi")


def _same_items(got, exp, has_close):
    if len(got) != len(exp):
        return False
    for (gk, gv), (ek, ev) in zip(got, exp):
        if gk != ek:
            return False
        if isinstance(ev, tuple):
            if not isinstance(gv, tuple) or gv[:3] != ev[:3]:
                return False
            if gv[3] != ev[3] and not (has_close and gv[3] == "<closed>"):
                return False
        elif gv != ev:
            return False
    return True


PROP = C10
