"""C01 - multipart decoding is exact and independent of how the body is chunked.

Generated form (adversarial content alphabet around CR / LF / dashes / boundary prefixes)
x a seeded partition of the encoded body into arriving chunks (biased to cut inside
delimiters, byte-at-a-time, empty chunks) x five surfaces: event-level decoder,
parse_stream, parse_async_stream (SimLoop, executor latency once an upload rolled to
disk), wsgi.Request.form (chunked wsgi.input), asgi.Request.form (SimASGI messages with
arrival latencies).  The generated part list is the reference.
"""
from .. import feed
from ..core import Prop, jsonable
from ..loop import SimDeadlock, SimStepLimit, SimTimeLimit
from ..models import multipart as mpm

DELAYS = (0.0, 0.0, 0.0, 0.01, 0.5)


class C01(Prop):
    id = "C01"
    level = "exploration"
    rule = ("one run = one generated form (0..4 parts; RFC 2046 boundary incl. regex metacharacters, 1..70 chars; field text / file bytes "
            "assembled from CR, LF, dashes, every kind of proper prefix of CRLF--boundary, random bytes; optional preamble/epilogue; "
            "occasionally a 70-200 KiB file) x one seeded chunking of the encoded body (whole, k random cuts, cuts inside each "
            "delimiter +-2, one byte at a time, fixed small size, empty chunks inserted) x the spool-size knob, evaluated on all five "
            "surfaces; non-trivial = the body was split into >= 2 chunks or a latency/executor fault fired; distinct = distinct "
            "(form, chunking) digests")
    assumptions = ("line breaks of the framing are CRLF (RFC 7578); preamble/epilogue content is not compared",
                   "WSGI cannot express empty chunks (an empty read is EOF), so they are dropped for that surface")
    components = {"real": ["baize.multipart.MultipartDecoder", "baize.multipart_helper.parse_stream/parse_async_stream", "baize.wsgi.Request.form", "baize.asgi.Request.form",
                           "baize.datastructures.UploadFile/FormData", "tempfile.SpooledTemporaryFile"],
                  "stub": ["chunk arrival (iterator / wsgi.input / ASGI receive)", "event loop clock/selector, executor inlined at a seeded instant"]}
    hard_probes = ("cut_inside_delimiter", "byte_at_a_time", "empty_chunk", "upload_rolled_to_disk", "large_file", "executor_latency", "transient_read_error", "earlier_request_abandoned_mid_body", "form_read_while_handling_an_exception")
    quick_runs = 60000
    thorough_runs = 1200000
    batch = 250

    def gen_plan(self, t):
        big = None
        if t.draw(40) == 0:
            big = t.choice([70_000, 140_000, 200_000])
        form = mpm.gen_form(t, max_parts=4, big_file=big)
        if big and form["parts"] and form["parts"][0]["kind"] != "file":
            big = None
        return {"form": form, "spool": t.choice([1024 * 1024, 8, 64, 1024 * 1024]), "big": big, "charset_in_ct": t.draw(4) == 0}

    def describe(self, plan, variant=None):
        f = plan["form"]
        return {"boundary": f["boundary"], "parts": [jsonable({k: v for k, v in p.items()}) for p in f["parts"]], "preamble": jsonable(f["preamble"]),
                "epilogue": jsonable(f["epilogue"]), "spool": plan["spool"], "encoded_len": len(mpm.encode_form(f))}

    def nontrivial(self, plan, ctx, variant):
        return ctx.notes.get("nchunks", 1) >= 2 or bool(ctx.faults)

    def execute(self, plan, ctx, variant=None):
        from baize.datastructures import UploadFile
        from baize.exceptions import HTTPException
        form = plan["form"]
        body = mpm.encode_form(form)
        exp = mpm.expected_items(form)
        mode, pieces = mpm.chunkings(ctx.sched, body, form)
        delays = [ctx.sched.choice(DELAYS) for _ in range(4)]
        ctx.notes["nchunks"] = len(pieces)
        ctx.sch("chunking", mode, [len(p) for p in pieces[:300]], len(pieces))
        # probes about the schedule the harness generated
        if mode == "bytes":
            ctx.probe("byte_at_a_time")
        if any(len(p) == 0 for p in pieces) and len(pieces) > 1:
            ctx.probe("empty_chunk")
        offs = mpm.delimiter_offsets(form)
        pos = 0
        for p in pieces[:-1]:
            pos += len(p)
            if any(s < pos < e for s, e in offs):
                ctx.probe("cut_inside_delimiter")
                break
        if plan["big"]:
            ctx.probe("large_file")
        old_spool = UploadFile.spool_max_size
        UploadFile.spool_max_size = plan["spool"]
        if any(p["kind"] == "file" and len(p["content"]) > plan["spool"] for p in form["parts"]):
            ctx.probe("upload_rolled_to_disk")
        ct = mpm.content_type_header(form, "utf-8" if plan["charset_in_ct"] else None)
        reuse = ctx.sched.draw(6) == 0
        if reuse:
            ctx.fault("producer_reuses_its_buffer")
        results = {}
        in_handler = ctx.sched.draw(5) == 0
        if in_handler:
            ctx.probe("form_read_while_handling_an_exception")
        no_cl = ctx.sched.draw(6) == 0
        if no_cl:
            ctx.probe("wsgi_body_without_content_length")
        factory = None
        if ctx.sched.draw(5) == 0:
            ctx.probe("upload_class_with_len")
            factory = feed.len_upload_factory()
        body_first = ctx.sched.draw(5) == 0
        if body_first:
            ctx.probe("body_read_before_form")
        try:
            if len(body) > 4 and ctx.sched.draw(5) == 0:
                # history: requests abandoned in the middle of the same well-formed body, then the healthy one
                ctx.fault("earlier_request_abandoned_mid_body")
                feed.abandoned_requests(ctx, form["boundary"], ct, body, 1 + ctx.sched.draw(len(body) - 1))
            for surf in feed.SURFACES:
                try:
                    if surf == "decoder":
                        got, extra = feed.run_decoder(form["boundary"], pieces, reuse_buffer=reuse)
                    elif surf == "parse_stream":
                        got = feed.items_of_sync(feed.run_parse_stream(form["boundary"], pieces, file_factory=factory, reuse_buffer=reuse))
                    elif surf == "parse_async_stream":
                        got = feed.run_parse_async_stream(ctx, form["boundary"], pieces, delays, file_factory=factory, post=feed.items_of_async)
                    elif surf == "wsgi_form":
                        got, _ = feed.run_wsgi_form(ctx, ct, pieces, in_handler=in_handler, body_first=body_first, no_content_length=no_cl)
                    else:
                        got, _ = feed.run_asgi_form(ctx, ct, pieces, delays, in_handler=in_handler, body_first=body_first)
                except (SimDeadlock, SimTimeLimit, SimStepLimit) as e:
                    ctx.violate("C01|%s|hang|%s" % (surf, type(e).__name__), "%s; chunking %s" % (e, mode))
                    continue
                except HTTPException as e:
                    ctx.violate("C01|%s|well-formed-body-rejected|%s" % (surf, type(e).__name__), "%r; chunking %s %r" % (e, mode, [len(p) for p in pieces[:40]]))
                    continue
                except Exception as e:
                    ctx.violate("C01|%s|exception|%s" % (surf, type(e).__name__), "%r; chunking %s" % (e, mode))
                    continue
                results[surf] = got
                ctx.ev("res", surf, len(got))
                self._compare(ctx, surf, got, exp, mode, pieces)
            if len([p for p in pieces if p]) >= 2 and ctx.sched.draw(4) == 0:
                self._wsgi_retry_after_read_error(ctx, ct, pieces, exp, mode)
        finally:
            UploadFile.spool_max_size = old_spool
        ctx.actors = 2 if len(pieces) > 1 else 1

    def _wsgi_retry_after_read_error(self, ctx, ct, pieces, exp, mode):
        """Fault: wsgi.input.read() fails once (a socket timeout) in the middle of the body; the application
        retries request.form.  The retry may fail, but it must never hand out a wrong part list."""
        from baize.exceptions import HTTPException
        from baize.wsgi import Request
        from ..httpreq import AbstractRequest
        from ..wsgi_peer import WsgiPeer
        body = b"".join(pieces)
        peer = WsgiPeer(ctx, ctx.sched, AbstractRequest("POST", "/", headers=[("content-type", ct), ("content-length", str(len(body)))], body=body), short_reads=False)
        inp = feed.ChunkedInput(pieces)
        fail_at = 2 + ctx.sched.draw(max(1, len(inp.pieces) - 1))
        state = {"failed": False}

        def on_read(delivered):
            if not state["failed"] and inp.reads == fail_at:
                state["failed"] = True
                ctx.fault("transient_read_error")
                raise TimeoutError("injected: read timed out")

        inp.on_read = on_read
        peer.environ["wsgi.input"] = inp
        req = Request(peer.environ)
        try:
            first = ("ok", feed.items_of_sync(req.form.multi_items()))
        except TimeoutError:
            first = ("timeout", None)
        except (HTTPException, RuntimeError) as e:
            first = ("exc", type(e).__name__)
        ctx.ev("retry-first", first[0])
        if first[0] != "timeout":
            if first[0] == "ok" and first[1] != exp:
                ctx.violate("C01|wsgi_form|wrong-result-despite-no-error", "chunking %s" % mode)
            return
        try:
            second = ("ok", feed.items_of_sync(req.form.multi_items()))
        except (HTTPException, RuntimeError, TimeoutError) as e:
            second = ("exc", type(e).__name__)
        except Exception as e:
            second = ("exc", type(e).__name__)
        ctx.ev("retry-second", second[0], second[1] if second[0] == "exc" else len(second[1]))
        if second[0] == "ok" and second[1] != exp:
            ctx.violate("C01|wsgi_form|retry-after-read-error-returns-wrong-parts",
                        "first request.form failed with a read timeout at read %d; the second returned %d of %d parts without an error; chunking %s" % (fail_at, len(second[1]), len(exp), mode))
        try:
            req.close()
        except Exception:
            pass

    def _compare(self, ctx, surf, got, exp, mode, pieces):
        if got == exp:
            return
        where = "chunking %s %r" % (mode, [len(p) for p in pieces[:40]])
        if len(got) != len(exp):
            ctx.violate("C01|%s|part-count" % surf, "%d parts decoded, %d encoded; %s" % (len(got), len(exp), where))
            return
        for i, ((gn, gv), (en, ev)) in enumerate(zip(got, exp)):
            if gn != en:
                ctx.violate("C01|%s|field-name" % surf, "part %d: %r != %r; %s" % (i, gn, en, where))
            elif isinstance(ev, str) != isinstance(gv, str):
                ctx.violate("C01|%s|part-kind" % surf, "part %d: %r vs %r; %s" % (i, type(gv).__name__, type(ev).__name__, where))
            elif isinstance(ev, str):
                if gv != ev:
                    ctx.violate("C01|%s|field-text" % surf, "part %d: %r != %r; %s" % (i, gv[:80], ev[:80], where))
            else:
                if gv[1] != ev[1]:
                    ctx.violate("C01|%s|filename" % surf, "part %d: %r != %r; %s" % (i, gv[1], ev[1], where))
                elif gv[2] != ev[2]:
                    ctx.violate("C01|%s|part-headers" % surf, "part %d: %r != %r; %s" % (i, gv[2], ev[2], where))
                elif gv[3] != ev[3]:
                    d = next((k for k in range(min(len(gv[3]), len(ev[3]))) if gv[3][k] != ev[3][k]), min(len(gv[3]), len(ev[3])))
                    ctx.violate("C01|%s|file-content" % surf, "part %d: lengths %d/%d, first difference at %d: %r vs %r; %s"
                                % (i, len(gv[3]), len(ev[3]), d, gv[3][max(0, d - 10):d + 10], ev[3][max(0, d - 10):d + 10], where))


PROP = C01
