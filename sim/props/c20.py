"""C20 - middleware is transparent to what it does not change.

Differential simulation: the same inner application is run bare and wrapped in a stack of
depth 0..3 (identity @middleware, identity @decorator, one-header-editing middleware) under
the same seed on SimWSGI / SimLoop+SimASGI, with the zero-copy capability, executor latency
and the CachedStream spool-size knob as configuration.
"""
import asyncio
import random

from .. import fs as simfs
from .. import recipes
from ..asgi_peer import AsgiHttpPeer
from ..core import Prop, jsonable
from ..httpreq import AbstractRequest
from ..loop import SimDeadlock, SimStepLimit, SimTimeLimit, run_sim
from ..wsgi_peer import WsgiPeer

FILES = [("m/empty.bin", 0), ("m/small.txt", 11), ("m/mid.bin", 5000), ("m/big.bin", 150001)]
RAW_HEADER_SETS = [
    [("Content-Type", "text/plain"), ("Set-Cookie", "a=1; Path=/"), ("Set-Cookie", "b=2; HttpOnly")],
    [("Content-Type", "text/plain"), ("Link", "</a>; rel=x"), ("Link", "</b>; rel=y"), ("X-One", "1")],
    [("content-type", "application/x-thing"), ("Vary", "Accept"), ("Vary", "Cookie"), ("Set-Cookie", "s=1"), ("Set-Cookie", "t=2"), ("Set-Cookie", "u=3")],
    [("Content-Type", "text/plain")],
    [],
    [("Content-Type", "text/plain"), ("Set-Cookie", "p=1; Path=/caf\xe9"), ("Set-Cookie", "q=\xfc; HttpOnly"), ("X-Name", "J\xf6rg")],
    # field names are case-insensitive: other spellings of the same header
    [("CONTENT-TYPE", "text/plain"), ("Set-cookie", "a=1"), ("SET-COOKIE", "b=2; Path=/"), ("set-Cookie", "c=3")],
    # repeated lines whose values contain one another, and exact duplicates
    [("Content-Type", "text/plain"), ("Vary", "Accept-Encoding"), ("Vary", "Accept"), ("X-Dup", "a"), ("X-Dup", "a"), ("Set-Cookie", "sid=old; Max-Age=0"), ("Set-Cookie", "sid=new")],
]


def pattern(n, salt=3):
    return bytes(((i * 11 + salt) % 253) for i in range(n))


class InnerError(Exception):
    pass


def normalise(header_list):
    """Header multiset as the statement means it: names case-folded, Set-Cookie lines kept
    separate (HTTP forbids folding them); for every other name the values in emission order
    joined with ', ' - RFC 7230 3.2.2 defines repeated lines and the comma-joined form as the
    same header, so a relay that folds them has not changed it."""
    per = {}
    out = []
    for k, v in header_list:
        if k == "set-cookie":
            out.append((k, v))
        else:
            per.setdefault(k, []).append(v)
    out.extend((k, ", ".join(vs)) for k, vs in per.items())
    return sorted(out)


def edited(headers, plan, n_edit):
    """What n_edit editing layers make of the bare application's (normalised) headers: only the one header changes."""
    exp = list(headers)
    if n_edit and plan.get("edit_append"):
        k, v = plan["edit_append"][0].lower(), plan["edit_append"][1]
        old = [hv for hk, hv in exp if hk == k]
        exp = [(hk, hv) for hk, hv in exp if hk != k] + [(k, ", ".join(old + [v] * n_edit))]
    elif n_edit:
        k, v = plan["edit"]
        exp = [(hk, hv) for hk, hv in exp if hk != k] + [(k, v)]
    return sorted(exp)


def unboundary(res):
    """The multipart/byteranges boundary is a fresh random token per response (and, with two requests in flight, whichever
    request draws first gets the first one): compare responses with the token replaced by a fixed word."""
    for r in (res, res.get("second")):
        if not r or not r.get("headers"):
            continue
        for k, v in r["headers"]:
            if k == "content-type" and v.lower().startswith("multipart/byteranges") and "boundary=" in v:
                tok = v.split("boundary=", 1)[1].split(";")[0].strip().strip('"')
                if tok:
                    r["headers"] = sorted((hk, hv.replace(tok, "BOUNDARY") if hk == "content-type" else hv) for hk, hv in r["headers"])
                    if isinstance(r.get("body"), (bytes, bytearray)):
                        r["body"] = bytes(r["body"]).replace(tok.encode("latin-1"), b"BOUNDARY")
                break
    return res


def cookie_seq(header_list):
    """Set-Cookie lines in emission order: a user agent applies them in that order (the later one of a name wins)."""
    return [v for k, v in header_list if k == "set-cookie"]


class C20(Prop):
    id = "C20"
    level = "exploration"
    rule = ("one run = (interface, inner application: every baize response class via a view, a FileResponse incl. the empty file and ranges, "
            "raw WSGI/ASGI apps with repeated header names and list / multi-message bodies, inner failure before or after start) x a wrapper "
            "stack of depth 0..3 over {identity middleware, identity decorator, header-editing middleware} x configuration (zero-copy offered, "
            "CachedStream spool size, executor/send latencies); bare and wrapped run under the same seed; non-trivial = depth >= 1; distinct = "
            "distinct digests of the emission sequences")
    assumptions = ("reason phrases, header order, header-name case and chunk boundaries are not compared", "when the inner application fails only the escaping exception type is compared")
    components = {"real": ["baize.wsgi.middleware (NextRequest/NextResponse/ensure_next/middleware)", "baize.asgi.middleware (CachedStream/NextResponse/middleware)",
                           "baize.*.shortcut (request_response/decorator)", "all response classes", "tempfile.SpooledTemporaryFile"],
                  "stub": ["ASGI/WSGI server peers", "event loop clock/selector, executor inlined at seeded instants", "SimThreads for WSGI SSE"]}
    hard_probes = ("depth_3", "editing_middleware", "raw_app_repeated_headers", "raw_app_restarts_response", "raw_app_latin1_header", "raw_app_zerocopy", "second_request_same_objects", "inner_raises_before_start", "inner_raises_after_start", "zerocopy_offered", "empty_file",
                   "cached_stream_rolled_to_disk", "executor_latency")
    quick_runs = 120000
    thorough_runs = 1500000
    batch = 500

    def setup(self, workdir):
        self.workdir = workdir
        self.fs = simfs.install(workdir + "/fs")
        for i, (rel, size) in enumerate(FILES):
            self.fs.write(rel, pattern(size, i), mtime=1_650_000_000.0 + i, ctime=1_650_000_000.0 + i)

    # -- plan ----------------------------------------------------------------
    def gen_plan(self, t):
        iface = t.choice(["wsgi", "asgi"])
        inner_kind = t.weighted([(5, "view"), (2, "raw"), (1, "view-raises")])
        plan = {"iface": iface, "inner": inner_kind, "zerocopy": t.draw(3) == 0, "spool": t.choice([1024 * 1024, 8, 64]),
                "lat": t.choice(["fast", "mixed"]), "method": t.weighted([(5, "GET"), (1, "HEAD")]), "range": None}
        if inner_kind == "view":
            kinds = ["response", "text", "html", "json", "redirect", "stream", "file", "file"] + (["sse"] if iface == "asgi" or t.draw(2) else [])
            r = recipes.gen_recipe(t, kinds=kinds, files=FILES)
            if r["kind"] == "file":
                if r["size"] // r["chunk_size"] > 100:
                    r["chunk_size"] = r["size"] // (2 + t.draw(30)) + 1
                plan["range"] = t.choice([None, None, "bytes=0-3", "bytes=2-5,8-9", "bytes=-4", "bytes=99999999-"])
            if r["kind"] in ("stream", "sse") and t.draw(4) == 0:
                n = len(r["chunks"]) if r["kind"] == "stream" else len(r["events"])
                r["raise_at"] = t.draw(n + 1)
            if r["kind"] == "sse":
                r["delays"] = [0.0] * len(r["events"])
            plan["recipe"] = r
        elif inner_kind == "raw":
            plan["raw"] = {"status": t.choice([200, 201, 404, 299]), "reason": t.choice(["OK", "Fine", "Whatever You Say"]),
                           "headers": t.choice(RAW_HEADER_SETS), "chunks": [t.choice([b"a", b"bb", b"", b"chunk", b"x" * 70000]) for _ in range(t.draw(4))],
                           "as_list": t.draw(2) == 0, "omit_headers_key": t.draw(5) == 0, "class_based": t.draw(4) == 0,
                           "headers_as_generator": t.draw(4) == 0, "reused_buffer": t.draw(4) == 0, "empty_body": t.draw(4) == 0,
                           # an ASGI app that uses the zero-copy extension itself (when offered): (seek position, offset, count) per message
                           "zc": t.choice([None, None, [(7, None, None)], [(0, 100, 50), (3, None, 20)], [(40, None, 10), (0, None, None)],
                                           # pos None = no seek before this message: it continues where the previous one stopped
                                           [(0, None, 30), (None, None, 50), (None, None, None)], [(5, 200, 10), (None, None, 25)]]),
                           # PEP 3333: start_response may be called again with exc_info before any body was sent
                           "restart": t.choice([None, None, None, {"status": 500, "headers": [("Content-Type", "text/plain"), ("X-Error", "1")]},
                                                {"status": 503, "headers": [("Set-Cookie", "err=1"), ("Retry-After", "5")]}])}
        stack = []
        depth = t.weighted([(1, 0), (3, 1), (3, 2), (2, 3)])
        for _ in range(depth):
            stack.append(t.weighted([(3, "mw"), (2, "dec"), (2, "edit")]))
        if inner_kind == "raw":
            stack = [s if s != "dec" else "mw" for s in stack]
        plan["stack"] = stack
        plan["edit"] = t.choice([("x-edited", "yes"), ("x-a", "overridden"), ("cache-control", "no-store")])
        # how the editing layer edits: assignment, or the CORS-layer idiom headers.append("Vary", "Origin") - a token added to
        # what the inner response carries under that name, the name in the usual capitalised spelling
        plan["edit_append"] = t.choice([None, None, ("X-A", "tok"), ("Cache-Control", "no-transform"), ("Vary", "Origin"), ("x-edited", "yes")])
        # a history: the same (bare / wrapped) application objects serve a second, identical request; on ASGI the two may overlap
        plan["repeat"] = t.weighted([(4, None), (1, "sequential"), (1, "concurrent")])
        # the request carries a body nobody reads (on ASGI it arrives in 1..3 messages, possibly while the response is under way)
        plan["post"] = {"size": t.choice([1, 10, 5000]), "pieces": 1 + t.draw(3), "delay": t.choice([0.0, 0.0, 0.1])} if t.draw(6) == 0 else None
        # the receive channel has nothing to offer after the request (raises when asked again)
        plan["recv_raises"] = t.draw(8) == 0
        # the view reads the request body (its own way); identity decorators may have looked at it before
        plan["view_reads"] = t.choice([None, None, "stream", "body"]) if inner_kind == "view" else None
        plan["dec_peeks"] = t.draw(3) == 0
        return plan

    def describe(self, plan, variant=None):
        return jsonable(plan)

    def nontrivial(self, plan, ctx, variant):
        return len(plan["stack"]) >= 1

    # -- application builders ---------------------------------------------------
    def _build(self, plan, iface, wrapped, counter, boom, sleep=None):
        if iface == "wsgi":
            import baize.wsgi as M
        else:
            import baize.asgi as M
        stack = plan["stack"] if wrapped else []
        edit_k, edit_v = plan["edit"]
        edit_append = plan.get("edit_append")

        def edit(resp):
            if edit_append:
                resp.headers.append(*edit_append)
            else:
                resp.headers[edit_k] = edit_v
        mws = [s for s in stack if s in ("mw", "edit")]
        decs = [s for s in stack if s == "dec"]

        if plan["inner"] in ("view", "view-raises"):
            if iface == "wsgi":
                def view(request):
                    counter["inner"] += 1
                    if plan["inner"] == "view-raises":
                        raise boom
                    note = None
                    if plan.get("view_reads") == "stream":       # the view reads the request body its own way
                        note = sum(len(c) for c in request.stream())
                    elif plan.get("view_reads") == "body":
                        note = len(request.body)
                    resp = recipes.build(plan["recipe"], "wsgi", self.fs, {"boom": boom, "sleep": sleep})
                    if note is not None:
                        resp.headers["x-read"] = str(note)
                    return resp

                for _ in decs:
                    @M.decorator
                    def ident(request, next_call):
                        if plan.get("dec_peeks"):                # an identity decorator that looks at the body (logging, a signature check)
                            request.body
                        return next_call(request)
                    view = ident(view)
            else:
                async def view(request):
                    counter["inner"] += 1
                    if plan["inner"] == "view-raises":
                        raise boom
                    note = None
                    if plan.get("view_reads") == "stream":
                        note = 0
                        async for c in request.stream():
                            note += len(c)
                    elif plan.get("view_reads") == "body":
                        note = len(await request.body)
                    resp = recipes.build(plan["recipe"], "asgi", self.fs, {"boom": boom})
                    if note is not None:
                        resp.headers["x-read"] = str(note)
                    return resp

                for _ in decs:
                    @M.decorator
                    async def ident(request, next_call):
                        if plan.get("dec_peeks"):
                            await request.body
                        return await next_call(request)
                    view = ident(view)
            app = M.request_response(view)
        else:
            raw = plan["raw"]
            if iface == "wsgi" and raw.get("class_based") and not raw.get("restart"):
                class app:          # PEP 3333's class-based form: the work, incl. start_response, happens in __iter__
                    def __init__(self, environ, start_response):
                        self.start = start_response

                    def __iter__(self):
                        counter["inner"] += 1
                        n = counter["inner"]
                        self.start("%d %s" % (raw["status"], raw["reason"]), list(raw["headers"]) + [("X-Run", str(n))])
                        if raw.get("empty_body"):
                            return              # an answer without a body (204, 304, HEAD): nothing is ever yielded
                        for c in raw["chunks"]:
                            yield c
                        yield b"run %d" % n
            elif iface == "wsgi":
                def app(environ, start_response):
                    counter["inner"] += 1
                    start_response("%d %s" % (raw["status"], raw["reason"]), list(raw["headers"]))
                    if raw.get("restart"):
                        try:
                            raise InnerError("failed before the first chunk")
                        except InnerError:
                            import sys
                            start_response("%d Error" % raw["restart"]["status"], list(raw["restart"]["headers"]), sys.exc_info())
                    if raw["as_list"]:
                        return list(raw["chunks"])
                    return iter(list(raw["chunks"]))
            else:
                async def app(scope, receive, send):
                    counter["inner"] += 1
                    msg = {"type": "http.response.start", "status": raw["status"]}
                    if not (raw["omit_headers_key"] and not raw["headers"]):
                        msg["headers"] = [(k.lower().encode("latin-1"), v.encode("latin-1")) for k, v in raw["headers"]]
                        if raw.get("headers_as_generator"):      # "an iterable of [name, value]": a one-shot generator is allowed
                            msg["headers"] = (h for h in msg["headers"])
                    await send(msg)
                    buf = bytearray()
                    for c in raw["chunks"]:
                        if raw.get("reused_buffer"):             # the app refills ONE buffer for every chunk it sends
                            buf[:] = c
                            await send({"type": "http.response.body", "body": buf, "more_body": True})
                        else:
                            await send({"type": "http.response.body", "body": c, "more_body": True})
                    if raw.get("zc") and "http.response.zerocopysend" in scope.get("extensions", {}):
                        import os
                        fd = os.open(self.fs.path("m/mid.bin"), os.O_RDONLY)
                        try:
                            for pos, off, cnt in raw["zc"]:
                                if pos is not None:
                                    os.lseek(fd, pos, os.SEEK_SET)      # the descriptor's own position matters when no offset is given
                                m = {"type": "http.response.zerocopysend", "file": fd, "more_body": True}
                                if off is not None:
                                    m["offset"] = off
                                if cnt is not None:
                                    m["count"] = cnt
                                await send(m)
                        finally:
                            os.close(fd)
                    await send({"type": "http.response.body", "body": b""})
        for s in reversed(mws):
            if iface == "wsgi":
                if s == "mw":
                    @M.middleware
                    def m(request, next_call):
                        return next_call(request)
                else:
                    @M.middleware
                    def m(request, next_call):
                        resp = next_call(request)
                        edit(resp)
                        return resp
            else:
                if s == "mw":
                    @M.middleware
                    async def m(request, next_call):
                        return await next_call(request)
                else:
                    @M.middleware
                    async def m(request, next_call):
                        resp = await next_call(request)
                        edit(resp)
                        return resp
            app = m(app)
        return app

    # -- one run of one app -------------------------------------------------------
    def _run(self, plan, ctx, wrapped, boom):
        counter = {"inner": 0}
        headers = [("host", "example.org")]
        if plan["range"]:
            headers.append(("range", plan["range"]))
        post = plan.get("post")
        script = None
        if post and plan["method"] == "GET":
            pbody = b"q" * post["size"]
            headers += [("content-type", "application/octet-stream"), ("content-length", str(len(pbody)))]
            req = AbstractRequest("POST", "/p", headers=headers, body=pbody)
            k = min(post["pieces"], len(pbody))
            cuts = [len(pbody) * i // k for i in range(k + 1)]
            script = [{"type": "http.request", "body": pbody[a:b], "more_body": i < k - 1, "delay": post["delay"] if i else 0.0} for i, (a, b) in enumerate(zip(cuts, cuts[1:]))]
            ctx.probe("unread_request_body")
        else:
            req = AbstractRequest(plan["method"], "/p", headers=headers, body=b"")
        random.seed(777)
        out = {"counter": counter}
        if plan["iface"] == "wsgi":
            peer = WsgiPeer(ctx, ctx.sched, req, surface="wsgi-%s" % ("wrapped" if wrapped else "bare"))
            need_threads = plan["inner"] == "view" and plan["recipe"]["kind"] == "sse"
            if need_threads:
                from .. import threads as T
                ctx.notes["qrepr"] = lambda x: type(x).__name__
                with T.simulation(ctx.sched, ctx, trace_files=(), preempt=(0, 1)) as s:
                    import time as _t
                    app = self._build(plan, "wsgi", wrapped, counter, boom, sleep=_t.sleep)
                    s.spawn(lambda: peer.run(app), "consumer")
                    res = s.run()
                if res != "ok":
                    out["hang"] = res
                    return out
            else:
                app = self._build(plan, "wsgi", wrapped, counter, boom)
                peer.run(app)
                if plan.get("repeat"):
                    random.seed(777)
                    peer2 = WsgiPeer(ctx, ctx.sched, req, surface="wsgi-%s-2nd" % ("wrapped" if wrapped else "bare"))
                    peer2.run(app)
                    out["second"] = {"status": peer2.status, "headers": normalise(peer2.header_list()), "cookies": cookie_seq(peer2.header_list()), "body": peer2.body, "exc": peer2.exc or peer2.close_exc}
            out.update(status=peer.status, headers=normalise(peer.header_list()), cookies=cookie_seq(peer.header_list()), body=peer.body, exc=peer.exc or peer.close_exc)
            return out
        lats = {"fast": (0.0,), "mixed": (0.0, 0.0, 0.2, 1.0)}[plan["lat"]]

        async def scenario(loop):
            peer = AsgiHttpPeer(loop, ctx, ctx.sched, req, script, zerocopy=plan["zerocopy"], send_lats=lats, recv_raises_after_script=plan.get("recv_raises", False), surface="asgi-%s" % ("wrapped" if wrapped else "bare"))
            app = self._build(plan, "asgi", wrapped, counter, boom)

            async def one(p):
                try:
                    await app(p.scope, p.receive, p.send)
                except BaseException as e:  # noqa
                    if isinstance(e, (asyncio.CancelledError, SimDeadlock, SimTimeLimit, SimStepLimit)):
                        raise
                    return e
                return None

            second = None
            if plan.get("repeat") == "concurrent":
                peer2 = AsgiHttpPeer(loop, ctx, ctx.sched, req, script, zerocopy=plan["zerocopy"], send_lats=lats, recv_raises_after_script=plan.get("recv_raises", False), surface="asgi-%s-2nd" % ("wrapped" if wrapped else "bare"))
                t1, t2 = loop.create_task(one(peer), name="first"), loop.create_task(one(peer2), name="second")
                await asyncio.wait([t1, t2])
                exc, exc2 = t1.result(), t2.result()
                second = (peer2, exc2)
            else:
                exc = await one(peer)
                if plan.get("repeat") == "sequential":
                    random.seed(777)
                    peer2 = AsgiHttpPeer(loop, ctx, ctx.sched, req, script, zerocopy=plan["zerocopy"], send_lats=lats, recv_raises_after_script=plan.get("recv_raises", False), surface="asgi-%s-2nd" % ("wrapped" if wrapped else "bare"))
                    second = (peer2, await one(peer2))
            await asyncio.sleep(0.01)
            res = {"status": peer.status, "headers": normalise(peer.header_list()), "cookies": cookie_seq(peer.header_list()), "body": peer.body, "exc": exc, "complete": peer.complete}
            if second is not None:
                p2, e2 = second
                res["second"] = {"status": p2.status, "headers": normalise(p2.header_list()), "cookies": cookie_seq(p2.header_list()), "body": p2.body, "exc": e2}
            return res

        try:
            res, loop = run_sim(scenario, ctx.sched, ctx, vcap=100000.0, step_cap=500000)
        except (SimDeadlock, SimTimeLimit, SimStepLimit) as e:
            out["hang"] = type(e).__name__
            return out
        out.update(res)
        return out

    def execute(self, plan, ctx, variant=None):
        # cookies with expires= read the wall clock: keep it virtual so that runs replay exactly
        from ..simclock import SimClock, installed
        with installed(SimClock(1_700_000_000.25), "UTC"):
            self._execute(plan, ctx, variant)

    def _execute(self, plan, ctx, variant=None):
        from baize.asgi.middleware import CachedStream
        iface = plan["iface"]
        boom = InnerError("inner failure")
        ctx.actors = 2
        if len(plan["stack"]) == 3:
            ctx.probe("depth_3")
        if "edit" in plan["stack"]:
            ctx.probe("editing_middleware")
        if plan["inner"] == "raw" and len({k.lower() for k, _ in plan["raw"]["headers"]}) < len(plan["raw"]["headers"]):
            ctx.probe("raw_app_repeated_headers")
        if plan["inner"] == "raw" and plan["raw"].get("restart") and iface == "wsgi":
            ctx.probe("raw_app_restarts_response")
        if plan["inner"] == "raw" and any(ord(c) > 127 for _, v in plan["raw"]["headers"] for c in v):
            ctx.probe("raw_app_latin1_header")
        if plan["inner"] == "raw" and plan["raw"].get("zc") and plan["zerocopy"] and iface == "asgi":
            ctx.probe("raw_app_zerocopy")
        if plan["inner"] == "view-raises":
            ctx.probe("inner_raises_before_start")
        if plan["inner"] == "view" and plan["recipe"].get("raise_at") is not None:
            ctx.probe("inner_raises_after_start")
        if plan["zerocopy"] and iface == "asgi":
            ctx.probe("zerocopy_offered")
        if plan["inner"] == "view" and plan["recipe"]["kind"] == "file" and plan["recipe"]["size"] == 0:
            ctx.probe("empty_file")
        old_spool = CachedStream.spool_max_size
        CachedStream.spool_max_size = plan["spool"]
        try:
            bare = unboundary(self._run(plan, ctx, False, boom))
            wrapped = unboundary(self._run(plan, ctx, True, boom))
        finally:
            CachedStream.spool_max_size = old_spool
        tag = "%s|%s" % (iface, plan["inner"] if plan["inner"] != "view" else plan["recipe"]["kind"])
        # what the SERVER is handed must stay within the gateway protocol wherever the bare application stayed within it
        # (types of status / header list / items, event grammar): clauses the wrapped run trips and the bare run does not
        def clauses(kind):
            out = set()
            for key, _ in ctx.monitor_trips:
                parts = key.split("|")          # proto|<surface>|<clause>
                if len(parts) >= 3 and parts[1].startswith("%s-%s" % (iface, kind)):
                    out.add(parts[2])
            return out
        extra = sorted(clauses("wrapped") - clauses("bare"))
        if extra and plan["stack"]:
            ctx.violate("C20|%s|wrapped-breaks-gateway-protocol|%s" % (tag, extra[0]), "protocol clauses tripped only behind the middleware: %r; stack %r" % (extra, plan["stack"]))
        where = "[stack=%r method=%s range=%r zerocopy=%s]" % (plan["stack"], plan["method"], plan["range"], plan["zerocopy"])
        ctx.ev("bare", bare.get("status"), bare.get("headers"), len(bare.get("body") or b""), type(bare.get("exc")).__name__, bare.get("hang"))
        ctx.ev("wrapped", wrapped.get("status"), wrapped.get("headers"), len(wrapped.get("body") or b""), type(wrapped.get("exc")).__name__, wrapped.get("hang"))
        if bare.get("hang"):
            return   # not this property's business (C05/C06)
        if wrapped.get("hang"):
            ctx.violate("C20|%s|wrapped-hangs|%s" % (tag, wrapped["hang"]), where)
            return
        if plan["stack"] and iface == "asgi" and len(bare.get("body") or b"") > plan["spool"]:
            ctx.probe("cached_stream_rolled_to_disk")
        # inner application runs exactly once (when the bare run reached it once)
        if bare["counter"]["inner"] == 1 and wrapped["counter"]["inner"] != 1:
            ctx.violate("C20|%s|inner-run-count|%d" % (tag, wrapped["counter"]["inner"]), where)
        be, we = bare.get("exc"), wrapped.get("exc")
        if be is not None or we is not None:
            if type(be) is not type(we):
                ctx.violate("C20|%s|escaping-exception-differs|bare-%s|wrapped-%s" % (tag, type(be).__name__, type(we).__name__), "bare %r, wrapped %r %s" % (be, we, where))
            return
        if bare["status"] != wrapped["status"]:
            ctx.violate("C20|%s|status-differs" % tag, "bare %s wrapped %s %s" % (bare["status"], wrapped["status"], where))
        n_edit = sum(1 for s in plan["stack"] if s == "edit")
        exp_headers = edited(bare["headers"], plan, n_edit)
        if wrapped["headers"] != exp_headers:
            missing = [h for h in exp_headers if h not in wrapped["headers"]]
            extra = [h for h in wrapped["headers"] if h not in exp_headers]
            names = sorted({h[0] for h in missing + extra})
            folded = any(hk == "set-cookie" and hk in {m[0] for m in missing} and any(m[1] in v for m in missing) for hk, v in extra)
            clause = "set-cookie-lines-folded" if folded else "headers-differ"
            ctx.violate("C20|%s|%s|%s" % (tag, clause, ",".join(names)[:60]), "expected-but-missing %r, unexpected %r %s" % (missing, extra, where))
        if sorted(bare.get("cookies") or []) == sorted(wrapped.get("cookies") or []) and (bare.get("cookies") or []) != (wrapped.get("cookies") or []):
            ctx.violate("C20|%s|set-cookie-lines-reordered" % tag, "bare %r, wrapped %r %s" % (bare.get("cookies"), wrapped.get("cookies"), where))
        if bare["body"] != wrapped["body"]:
            b, w = bare["body"], wrapped["body"]
            kind = "empty" if not w else ("duplicated-prefix" if w[len(w) - len(b):] == b and len(w) > len(b) else "other")
            ctx.violate("C20|%s|body-differs|%s" % (tag, kind), "bare %d bytes %r.., wrapped %d bytes %r.. %s" % (len(b), b[:30], len(w), w[:30], where))
        # the second request of a history: the wrapped application must still answer like the bare one
        b2, w2 = bare.get("second"), wrapped.get("second")
        if b2 is not None and w2 is not None and plan["inner"] != "view" or (b2 is not None and w2 is not None and plan["recipe"]["kind"] not in ("sse",)):
            ctx.probe("second_request_same_objects")
            if type(b2["exc"]) is not type(w2["exc"]):
                ctx.violate("C20|%s|2nd-request|escaping-exception-differs|bare-%s|wrapped-%s" % (tag, type(b2["exc"]).__name__, type(w2["exc"]).__name__), where)
            elif b2["exc"] is None:
                exp2 = edited(b2["headers"], plan, n_edit)
                if b2["status"] != w2["status"] or w2["headers"] != exp2 or b2["body"] != w2["body"]:
                    ctx.violate("C20|%s|2nd-request|%s-differs" % (tag, "status" if b2["status"] != w2["status"] else ("headers" if w2["headers"] != exp2 else "body")),
                                "%s history: bare 2nd (%s, %d bytes, %r) wrapped 2nd (%s, %d bytes, %r) %s" % (plan["repeat"], b2["status"], len(b2["body"]), b2["headers"][:6], w2["status"], len(w2["body"]), w2["headers"][:6], where))


PROP = C20
