"""C04 - the WSGI and ASGI stacks are observationally equivalent.

Differential simulation: one abstract request (method, UTF-8 path, root path, query, header
list, cookies, body + chunking, client, scheme/server) and one application recipe (a small
JSON tree interpreted into both baize.wsgi and baize.asgi) are run on SimWSGI and on
SimLoop/SimASGI under the same run seed.  The request views and the responses must agree;
the only sanctioned difference is `connection` on the ASGI event-stream response.
"""
import asyncio
import json
import random

from .. import fs as simfs
from .. import recipes
from ..asgi_peer import AsgiHttpPeer
from ..core import Prop, jsonable
from ..httpreq import AbstractRequest
from ..loop import SimDeadlock, SimStepLimit, SimTimeLimit, run_sim
from ..models import multipart as mpm
from ..wsgi_peer import WsgiPeer

SITE = [("site/index.html", b"<h1>index</h1>"), ("site/a.txt", b"alpha file\n"), ("site/sub/index.html", b"<h1>sub</h1>"), ("site/sub/x.html", b"<p>x</p>"),
        ("site/é.txt", b"accent"), ("site/empty.bin", b""), ("site/big.bin", bytes(range(256)) * 40), ("site/about.html", b"<p>about</p>"),
        # a directory and a page of the same name side by side: /sub is the directory
        ("site/sub.html", b"<p>page named like the directory</p>"), ("site/release-1.2.html", b"<p>notes</p>")]
FILES = [("site/a.txt", 11), ("site/big.bin", 10240), ("site/empty.bin", 0)]
SEGS = ["a", "b", "static", "api", "é", "中", "x.html", "index.html", "sub", "1", "007", "2021-03-07", "123.5", "90478484-0988-45fc-91fe-757d90136892",
        "a.txt", "about", "big.bin", "é.txt", "empty.bin", "100%", "a b", "x",
        # characters that delimit the query / fragment on the wire are ordinary path characters once decoded; a stem with a dot
        "what?now", "a#b", "release-1.2"]
QUERIES = ["", "", "a=1", "a=1&a=2&b=%E4%B8%AD", "x", "q=a+b&empty=", "k=%26%3D&k2=v%20w", "a=1;b=2"]
ACCEPTS = [None, "*/*", "text/html, application/json;q=0.9", "application/json", "text/*;q=0.5, image/png", " , ,text/plain"]
COOKIES = [None, "a=1", "a=1; b=2", 'q="x\\073y"; e=', "noequals; a=b", "  sp = v ; k=v=w"]
ROUTES = ["/", "/static/{p:any}", "/api/{id:int}", "/u/{name}", "/d/{day:date}", "/n/{x:decimal}", "/id/{u:uuid}", "/{a}/{b}", "/about", "/api/{id:int}/x/{rest:any}"]
HOSTS = [r"example\.org", r"(www\.)?example\.com", r".*\.internal", r"localhost(:\d+)?", r".*"]
HOST_VALUES = [None, "example.org", "www.example.com", "example.com:8080", "a.internal", "localhost:8000", "[::1]:8000", "other.net"]


SITE_MTIME = 1_650_000_000.0


def http_date(ts):
    from email.utils import formatdate
    return formatdate(ts, usegmt=True)


class ViewError(Exception):
    pass


def gen_request(t):
    nseg = t.draw(4)
    path = "/" + "/".join(t.choice(SEGS) for _ in range(nseg))
    if nseg and t.draw(4) == 0:
        path += "/"
    headers = []
    host = t.choice(HOST_VALUES)
    if host:
        headers.append(("Host", host))
    acc = t.choice(ACCEPTS)
    if acc is not None:
        headers.append(("Accept", acc))
    ck = t.choice(COOKIES)
    if ck is not None:
        headers.append(("Cookie", ck))
    if t.draw(3) == 0:
        headers.append(("Referer", t.choice(["http://example.org/p?q=1", "/relative", "https://u:p@h:8/x#f"])))
    if t.draw(3) == 0:
        headers.append(("Date", t.choice(["Wed, 21 Oct 2015 07:28:00 GMT", "junk", "Wed, 21 Oct 2015 07:28:00 +0800"])))
    if t.draw(3) == 0:
        headers.append(("X-Custom-Thing", t.choice(["v", "a, b", "é"])))
    if t.draw(4) == 0:
        headers.append(("If-None-Match", t.choice(["*", '"nope"', 'W/"x", "y"'])))
    if t.draw(5) == 0:
        # also the Last-Modified (mtime) and the change time of the site's files, as a client or a skewed clock would echo them
        k = t.draw(len(SITE))
        headers.append(("If-Modified-Since", t.choice(["Wed, 21 Oct 2015 07:28:00 GMT", "Fri, 01 Jan 2038 00:00:00 GMT", "junk",
                                                       http_date(SITE_MTIME + k), http_date(SITE_MTIME + k), http_date(SITE_MTIME + k + 90), http_date(SITE_MTIME + k - 1)])))
    if t.draw(5) == 0:
        headers.append(("Range", t.choice(["bytes=0-3", "bytes=2-5,8-9", "bytes=-4", "bytes=99999-", "bytes=5-4", "x"])))
    method = t.weighted([(4, "GET"), (3, "POST"), (1, "HEAD"), (1, "PUT"), (1, "DELETE")])
    body, form, kind = b"", None, "none"
    if method in ("POST", "PUT"):
        kind = t.weighted([(3, "json"), (3, "urlenc"), (3, "mp"), (2, "raw"), (1, "badjson")])
        if kind == "json":
            body = json.dumps({"a": [1, 2, t.draw(10)], "k": t.choice(["v", "é", ""])}).encode("utf-8")
            headers.append(("Content-Type", t.choice(["application/json", "application/json; charset=utf-8"])))
            if t.draw(5) == 0:
                body = b"\xef\xbb\xbf" + body       # some clients (PowerShell, .NET) put a byte-order mark in front
        elif kind == "badjson":
            body = t.choice([b"{", b"[1,", b"nope", b"\xef\xbb\xbf", b"\xef\xbb\xbfnope", b"\xff\xfe{\x00}\x00", b'"\xe9"'])
            headers.append(("Content-Type", "application/json"))
        elif kind == "urlenc":
            body = ("a=1&b=%d&c=%s&a=2" % (t.draw(10), t.choice(["x", "%20y", ""]))).encode()
            headers.append(("Content-Type", "application/x-www-form-urlencoded"))
        elif kind == "mp":
            form = mpm.gen_form(t, max_parts=3, file_bias=2, allow_pre_epi=False)
            body = mpm.encode_form(form)
            if t.draw(8) == 0 and len(body) > 4:
                body = body[:t.draw(len(body))]       # the client gave up mid-body / a proxy cut it: both stacks must agree on what that is
            headers.append(("Content-Type", mpm.content_type_header(form)))
        else:
            body = t.bytes_of(t.draw(30))
            if t.draw(2):
                headers.append(("Content-Type", t.choice(["text/plain", "application/octet-stream"])))
        if t.draw(4):
            headers.append(("Content-Length", str(len(body))))
        elif t.draw(2):
            headers.append(("Transfer-Encoding", "chunked"))
    k = t.draw(4)
    cuts = sorted(t.draw(len(body) + 1) for _ in range(k)) if body else []
    return {"method": method, "path": path, "root_path": t.choice(["", "", "/root", "/r/é"]), "query": t.choice(QUERIES), "headers": headers, "body": body,
            "cuts": cuts, "empties": [t.draw(4) for _ in range(t.draw(3))] if body and t.draw(3) == 0 else [], "client": t.choice([None, ("1.2.3.4", 5555), ("::1", 80)]), "server": t.choice([("example.org", 80), ("example.org", 8080), ("10.0.0.1", 443)]),
            "scheme": t.choice(["http", "https"]), "body_kind": kind}


def gen_app(t, depth=0):
    kinds = [(4, "dump"), (5, "resp")]
    if depth < 3:
        kinds += [(2, "router"), (2, "subpaths"), (1, "hosts"), (2, "mw"), (1, "dec")]
    kinds += [(2, "files"), (2, "pages"), (1, "raises")]
    k = t.weighted(kinds)
    if k == "dump":
        # the order of the body accessors matters: form-first parses the multipart body straight from the channel
        return {"t": "dump", "order": t.choice(["bjf", "fbj", "jfb", "fjb", "bfj"])}
    if k == "raises":
        return {"t": "raises", "how": t.choice(["exc", "http404", "http418", "abort400"])}
    if k == "resp":
        r = recipes.gen_recipe(t, files=FILES)
        if r["kind"] == "file" and r["size"] // r["chunk_size"] > 60:
            r["chunk_size"] = r["size"] // (2 + t.draw(20)) + 1
        if r["kind"] in ("stream", "sse") and t.draw(5) == 0:
            # the producer itself fails at its k-th step (k = 0: before anything was produced)
            r["raise_at"] = t.draw(len(r["chunks"] if r["kind"] == "stream" else r["events"]) + 1)
        return {"t": "resp", "recipe": r}
    if k == "router":
        n = 1 + t.draw(4)
        return {"t": "router", "routes": [(t.choice(ROUTES), gen_app(t, depth + 1)) for _ in range(n)]}
    if k == "subpaths":
        n = 1 + t.draw(3)
        return {"t": "subpaths", "mounts": [(t.choice(["/a", "/static", "/api", "", "/a/b", "/sub", "/é"]), gen_app(t, depth + 1)) for _ in range(n)]}
    if k == "hosts":
        n = 1 + t.draw(3)
        return {"t": "hosts", "hosts": [(t.choice(HOSTS), gen_app(t, depth + 1)) for _ in range(n)]}
    if k == "mw":
        # "reflect": the middleware looks at the request AFTER the inner application ran (path parameters and mount prefix as routing left them)
        return {"t": "mw", "edit": t.choice([None, None, ("x-edited", "1"), "reflect", "reflect", "digest"]), "inner": gen_app(t, depth + 1)}
    if k == "dec":
        return {"t": "dec", "inner": t.choice([{"t": "dump", "order": t.choice(["bjf", "fbj"])}, {"t": "resp", "recipe": recipes.gen_recipe(t, kinds=["response", "text", "json", "redirect"])}])}
    return {"t": k, "dir": t.choice(["site", "site/sub"]), "cacheability": t.choice(["public", "no-cache"]), "max_age": t.choice([600, 0])}


def uses(tree, what):
    if tree["t"] == what:
        return True
    for key in ("routes", "mounts", "hosts"):
        if key in tree and any(uses(sub, what) for _, sub in tree[key]):
            return True
    if "inner" in tree:
        return uses(tree["inner"], what)
    return False


def has_sse(tree):
    if tree["t"] == "resp" and tree["recipe"]["kind"] == "sse":
        return True
    for key in ("routes", "mounts", "hosts"):
        if key in tree and any(has_sse(sub) for _, sub in tree[key]):
            return True
    return "inner" in tree and has_sse(tree["inner"])


def sse_recipes(tree):
    out = []
    if tree["t"] == "resp" and tree["recipe"]["kind"] == "sse":
        out.append(tree["recipe"])
    for key in ("routes", "mounts", "hosts"):
        if key in tree:
            for _, sub in tree[key]:
                out += sse_recipes(sub)
    if "inner" in tree:
        out += sse_recipes(tree["inner"])
    return out


def mount_prefixes(tree):
    out = []
    if tree["t"] == "subpaths":
        out += [p for p, _ in tree["mounts"] if p]
    for key in ("routes", "mounts", "hosts"):
        if key in tree:
            for _, sub in tree[key]:
                out += mount_prefixes(sub)
    if "inner" in tree:
        out += mount_prefixes(tree["inner"])
    return out


def has_file_recipe(tree):
    if tree["t"] == "resp" and tree["recipe"]["kind"] == "file":
        return True
    for key in ("routes", "mounts", "hosts"):
        if key in tree and any(has_file_recipe(sub) for _, sub in tree[key]):
            return True
    return "inner" in tree and has_file_recipe(tree["inner"])


class _Sink:
    """views.append(...) of the dump view goes to the list of the request being served"""

    def __init__(self, holder):
        self.holder = holder

    def append(self, v):
        self.holder["views"].append(v)


class C04(Prop):
    id = "C04"
    level = "exploration"
    rule = ("one run = one abstract request (method, UTF-8 path of 0..3 segments, root path, query, Host/Accept/Cookie/Referer/Date/conditional/Range "
            "headers, json / urlencoded / multipart / raw body with a chunking, client, scheme/server) x one application recipe (tree of depth <= 3 "
            "over dump-view, response recipe of every class, raising view, router, subpaths, hosts, files, pages, middleware, decorator) run on "
            "SimWSGI and on SimLoop/SimASGI under the same seed; non-trivial = the app tree has depth >= 1 or a body was read; distinct = distinct "
            "digests of (request view, response) pairs")
    assumptions = ("header names are compared case-folded with multiplicity; reason phrases and chunk boundaries are not compared", "keep-alive ping comments of event streams are removed before comparing bodies",
                   "header names in the abstract request are unique and contain no underscore (WSGI cannot represent the difference)")
    components = {"real": ["baize.wsgi.* and baize.asgi.* (requests, responses, routing, staticfiles, shortcut, middleware)", "baize.requests/datastructures/routing/staticfiles"],
                  "stub": ["WSGI server peer (environ, short reads)", "ASGI server peer (scope, chunked messages, latencies)", "event loop clock/selector, executor", "SimThreads for WSGI SSE", "virtual wall clock", "SimFS tree"]}
    hard_probes = ("dump_view", "router", "subpaths", "hosts", "files", "pages", "middleware", "form_multipart", "http_exception_outcome", "status_304", "executor_latency", "two_request_history")
    quick_runs = 150000
    thorough_runs = 2000000
    batch = 500

    def setup(self, workdir):
        self.workdir = workdir
        self.fs = simfs.install(workdir + "/fs")
        for i, (rel, data) in enumerate(SITE):
            # like files unpacked from an archive: the inode change time is later than the modification time
            self.fs.write(rel, data, mtime=SITE_MTIME + i, ctime=SITE_MTIME + i + (0 if i % 3 == 0 else 90))

    def gen_plan(self, t):
        plan = {"req": gen_request(t), "app": gen_app(t), "lat": t.choice(["fast", "mixed"]), "short": t.draw(2) == 0, "req2": None}
        if t.draw(3) == 0:
            # a history: a second request served by the SAME application objects (often to the same path, with other
            # conditional / Range headers) - whatever the first request left behind in them must not show
            r2 = gen_request(t)
            if t.draw(2):
                r2["path"], r2["root_path"] = plan["req"]["path"], plan["req"]["root_path"]
            plan["req2"] = r2
        # event streams on an exactly reproducible time line: producer gaps that never coincide with a ping deadline and a client that
        # takes every chunk at once - then the keep-alive comments are part of the body both interfaces must agree on
        # (not behind a middleware: there the ASGI body passes through a spooled file written in the thread pool, whose latency is the environment's)
        if has_sse(plan["app"]) and not uses(plan["app"], "mw") and t.draw(2) == 0:
            plan["timed_sse"] = True
            plan["lat"] = "fast"
            for r in sse_recipes(plan["app"]):
                r["delays"] = [t.choice([0.0, 0.31, 0.43, 0.71, 1.13, 1.37, 2.29]) * r["ping_interval"] for _ in r["events"]]
        # a request whose path repeats the mount prefix (/a/a/x under a mount at /a): only the first occurrence is the mount
        prefixes = mount_prefixes(plan["app"])
        if prefixes and t.draw(4) == 0:
            pre = t.choice(prefixes)
            plan["req"]["path"] = pre + pre + t.choice(["", "/", "/x", "/index.html", "/a.txt"])
        # fault: a served file is removed between the directory application's stat() and the response's open()
        plan["vanish"] = (uses(plan["app"], "files") or uses(plan["app"], "pages") or has_file_recipe(plan["app"])) and t.draw(8) == 0
        return plan

    def describe(self, plan, variant=None):
        return jsonable(plan)

    def nontrivial(self, plan, ctx, variant):
        return plan["app"]["t"] not in ("dump", "resp", "raises") or bool(plan["req"]["body"])

    # -- interpretation of the app tree ---------------------------------------------
    def _interpret(self, tree, iface, views, boom, sleep=None):
        if iface == "wsgi":
            import baize.wsgi as M
        else:
            import baize.asgi as M
        from baize.exceptions import HTTPException, abort
        t = tree["t"]
        if t in ("dump", "resp", "raises", "dec"):
            inner = tree["inner"] if t == "dec" else tree

            def make_view(node):
                if iface == "wsgi":
                    def view(request):
                        if node["t"] == "dump":
                            views.append(dump_sync(request, node.get("order", "bjf")))
                            return M.JSONResponse({"ok": 1})
                        if node["t"] == "raises":
                            raise_how(node["how"])
                        return recipes.build(node["recipe"], "wsgi", self.fs, {"boom": boom, "sleep": sleep})
                else:
                    async def view(request):
                        if node["t"] == "dump":
                            views.append(await dump_async(request, node.get("order", "bjf")))
                            return M.JSONResponse({"ok": 1})
                        if node["t"] == "raises":
                            raise_how(node["how"])
                        return recipes.build(node["recipe"], "asgi", self.fs, {"boom": boom})
                return view

            def raise_how(how):
                if how == "exc":
                    raise boom
                if how == "http404":
                    raise HTTPException(404)
                if how == "http418":
                    raise HTTPException(418, {"X-Tea": "pot"}, "teapot")
                abort(400)

            view = make_view(inner)
            if t == "dec":
                if iface == "wsgi":
                    @M.decorator
                    def d(request, next_call):
                        return next_call(request)
                else:
                    @M.decorator
                    async def d(request, next_call):
                        return await next_call(request)
                view = d(view)
            return M.request_response(view)
        if t == "router":
            return M.Router(*[(p, self._interpret(sub, iface, views, boom, sleep)) for p, sub in tree["routes"]])
        if t == "subpaths":
            return M.Subpaths(*[(p, self._interpret(sub, iface, views, boom, sleep)) for p, sub in tree["mounts"]])
        if t == "hosts":
            return M.Hosts(*[(p, self._interpret(sub, iface, views, boom, sleep)) for p, sub in tree["hosts"]])
        if t in ("files", "pages"):
            cls = M.Files if t == "files" else M.Pages
            return cls(self.fs.path(tree["dir"]), cacheability=tree["cacheability"], max_age=tree["max_age"])
        if t == "mw":
            inner = self._interpret(tree["inner"], iface, views, boom, sleep)
            edit = tree["edit"]
            if iface == "wsgi":
                @M.middleware
                def m(request, next_call):
                    resp = next_call(request)
                    if edit == "digest":
                        # reads the body it relays (for a size / digest header) and hands the same response on
                        resp.headers["x-size"] = str(len(b"".join(resp.iterable).replace(b": ping\n\n", b"")))      # (keep-alive comments depend on timing)
                    elif edit == "reflect":
                        resp.headers["x-seen"] = ("%r %r %s" % (sorted((k, str(v)) for k, v in request.path_params.items()), request.get("SCRIPT_NAME", "").encode("latin-1").decode("utf-8", "replace"), request.url.path)).encode("ascii", "backslashreplace").decode("ascii")
                    elif edit:
                        resp.headers[edit[0]] = edit[1]
                    return resp
            else:
                @M.middleware
                async def m(request, next_call):
                    resp = await next_call(request)
                    if edit == "digest":
                        cs = []
                        async for c in resp.iterable:
                            cs.append(c)
                        resp.headers["x-size"] = str(len(b"".join(cs).replace(b": ping\n\n", b"")))
                    elif edit == "reflect":
                        resp.headers["x-seen"] = ("%r %r %s" % (sorted((k, str(v)) for k, v in request.path_params.items()), request.get("root_path", ""), request.url.path)).encode("ascii", "backslashreplace").decode("ascii")
                    elif edit:
                        resp.headers[edit[0]] = edit[1]
                    return resp
            return m(inner)
        raise ValueError(t)

    # -- running one side ------------------------------------------------------------
    def _abstract(self, rq):
        return AbstractRequest(rq["method"], rq["path"], rq["root_path"], rq["query"], rq["headers"], rq["body"], rq["client"], rq["server"], rq["scheme"])

    def _outcome(self, status, headers, body, exc, sse):
        from baize.exceptions import HTTPException
        if exc is not None:
            if isinstance(exc, HTTPException):
                return ("http-exception", exc.status_code, sorted((k.lower(), v) for k, v in (exc.headers or {}).items()), exc.content)
            # ... and what the server had been handed before the exception left the application (None = nothing yet)
            return ("exception", type(exc).__name__, status)
        if sse:
            body = body.replace(b": ping\n\n", b"")
        return ("response", status, sorted(headers), body)

    def _wsgi(self, plan, ctx, boom, rq, cache):
        views = []
        peer = WsgiPeer(ctx, ctx.sched, self._abstract(rq), short_reads=plan["short"], surface="wsgi")
        random.seed(4242)
        if has_sse(plan["app"]):
            from .. import threads as T
            ctx.notes["qrepr"] = lambda x: type(x).__name__
            with T.simulation(ctx.sched, ctx, trace_files=(), preempt=(0, 1)) as s:
                import time as _t
                app = self._app(plan, "wsgi", views, boom, cache, _t.sleep)
                s.spawn(lambda: peer.run(app), "consumer")
                res = s.run()
            if res != "ok":
                return ("hang", res), views
        else:
            import time as _t
            app = self._app(plan, "wsgi", views, boom, cache, _t.sleep)
            peer.run(app)
        return self._outcome(peer.status, peer.header_list(), peer.body, peer.exc or peer.close_exc, has_sse(plan["app"]) and not plan.get("timed_sse")), views

    def _app(self, plan, iface, views, boom, cache, sleep=None):
        """The application objects are built once per run and interface and serve every request of the history."""
        if iface not in cache:
            cache[iface] = {"views": views, "app": None}
            cache[iface]["app"] = self._interpret(plan["app"], iface, _Sink(cache[iface]), boom, sleep)
        cache[iface]["views"] = views
        return cache[iface]["app"]

    def _asgi(self, plan, ctx, boom, rq, cache):
        views = []
        body = rq["body"]
        cuts = rq["cuts"]
        pieces = [body[i:j] for i, j in zip([0] + cuts, cuts + [len(body)])]
        for pos in rq.get("empties", []):     # empty http.request messages in the middle of the body are legal
            pieces.insert(min(pos, len(pieces)), b"")
        msgs = [{"type": "http.request", "body": p, "more_body": i < len(pieces) - 1, "delay": 0.0} for i, p in enumerate(pieces)]
        lats = {"fast": (0.0,), "mixed": (0.0, 0.0, 0.2, 1.0)}[plan["lat"]]
        random.seed(4242)

        async def scenario(loop):
            peer = AsgiHttpPeer(loop, ctx, ctx.sched, self._abstract(rq), msgs, send_lats=lats, recv_lat_extra=(0.0, 0.0, 0.05), surface="asgi")
            app = self._app(plan, "asgi", views, boom, cache)
            exc = None
            try:
                await app(peer.scope, peer.receive, peer.send)
            except BaseException as e:  # noqa
                if isinstance(e, (asyncio.CancelledError, SimDeadlock, SimTimeLimit, SimStepLimit)):
                    raise
                exc = e
            await asyncio.sleep(0.01)
            return peer.status, peer.header_list(), peer.body, exc

        try:
            (status, headers, rbody, exc), loop = run_sim(scenario, ctx.sched, ctx, vcap=100000.0, step_cap=500000)
        except (SimDeadlock, SimTimeLimit, SimStepLimit) as e:
            return ("hang", type(e).__name__), views
        return self._outcome(status, headers, rbody, exc, has_sse(plan["app"]) and not plan.get("timed_sse")), views

    def execute(self, plan, ctx, variant=None):
        from ..simclock import SimClock, installed
        with installed(SimClock(1_700_000_000.25), "UTC"):
            self._execute(plan, ctx)

    def _execute(self, plan, ctx):
        boom = ViewError("view failure")
        app = plan["app"]
        for what, probe in (("dump", "dump_view"), ("router", "router"), ("subpaths", "subpaths"), ("hosts", "hosts"), ("files", "files"), ("pages", "pages"), ("mw", "middleware")):
            if uses(app, what):
                ctx.probe(probe)
        if plan["req"]["body_kind"] == "mp" and uses(app, "dump"):
            ctx.probe("form_multipart")
        ctx.actors = 2
        cache = {}
        reqs = [plan["req"]] + ([plan["req2"]] if plan.get("req2") else [])
        if len(reqs) > 1:
            ctx.probe("two_request_history")
        for n, rq in enumerate(reqs):
            self._compare(plan, ctx, boom, rq, cache, "" if n == 0 else "2nd-request|")

    def _compare(self, plan, ctx, boom, rq, cache, tag):
        app = plan["app"]
        fs = self.fs
        sides = []
        for side in (self._wsgi, self._asgi):
            if plan.get("vanish"):
                fs.fault_plan, fs.fault_flavour, fs.calls, fs.ctx = {"os_open": 1, "file_open": 1}, "enoent", {}, ctx
            try:
                sides.append(side(plan, ctx, boom, rq, cache))
            finally:
                fs.fault_plan, fs.fault_flavour, fs.calls, fs.ctx = {}, "eio", {}, None
        (w, wviews), (a, aviews) = sides
        ctx.sch("wsgi", w[:3], len(w[3]) if len(w) > 3 and isinstance(w[3], bytes) else None, wviews)
        ctx.sch("asgi", a[:3], len(a[3]) if len(a) > 3 and isinstance(a[3], bytes) else None, aviews)
        if w[0] == "hang" or a[0] == "hang":
            if w[0] != a[0]:
                ctx.violate("C04|" + tag + "hang-on-one-interface|%s" % ("wsgi" if w[0] == "hang" else "asgi"), "wsgi %r asgi %r" % (w[:2], a[:2]))
            return
        where = "[app %s]" % summarise(app)
        if w[0] == "http-exception" or a[0] == "http-exception":
            ctx.probe("http_exception_outcome")
        if (w[0] == "response" and w[1] == 304) or (a[0] == "response" and a[1] == 304):
            ctx.probe("status_304")
        # request views
        if len(wviews) != len(aviews):
            ctx.violate("C04|" + tag + "view-reached-on-one-interface-only", "wsgi reached the dump view %d times, asgi %d times %s" % (len(wviews), len(aviews), where))
        else:
            for vw, va in zip(wviews, aviews):
                for key in vw:
                    if vw[key] != va.get(key):
                        ctx.violate("C04|" + tag + "request-view-differs|%s" % key, "wsgi %r, asgi %r [request %r]" % (vw[key], va.get(key), jsonable({k: v for k, v in rq.items() if k != "body"})))
        # outcomes
        if w[0] != a[0]:
            ctx.violate("C04|" + tag + "outcome-class-differs|wsgi-%s|asgi-%s" % (w[0], a[0]), "wsgi %r, asgi %r %s" % (short(w), short(a), where))
            return
        if w[0] == "exception":
            if w[1] != a[1]:
                ctx.violate("C04|" + tag + "exception-type-differs|%s|%s" % (w[1], a[1]), where)
            elif w[2] != a[2] and not uses(app, "mw"):
                # (behind @middleware the two stacks differ by design: the ASGI one runs the inner application to completion before it
                # relays anything, the WSGI one relays lazily - with a failing producer one has started, the other has not; not judged)
                ctx.violate("C04|" + tag + "response-started-before-exception-on-one-interface-only|wsgi-%s|asgi-%s" % (w[2], a[2]),
                            "%s left the application; the server had been handed status %r on WSGI, %r on ASGI %s" % (w[1], w[2], a[2], where))
            return
        if w[0] == "http-exception":
            if w[1:] != a[1:]:
                ctx.violate("C04|" + tag + "http-exception-differs", "wsgi %r, asgi %r %s" % (w[1:], a[1:], where))
            return
        _, ws, wh, wb = w
        _, as_, ah, ab = a
        kind = leaf_kind(app)
        if ws != as_:
            ctx.violate("C04|" + tag + "status-differs|%s" % kind, "wsgi %s, asgi %s %s" % (ws, as_, where))
        if has_sse(app):
            ah = [h for h in ah if h[0] != "connection"]      # the sanctioned difference
        if wh != ah:
            only_w = [h for h in wh if h not in ah]
            only_a = [h for h in ah if h not in wh]
            names = sorted({h[0] for h in only_w + only_a})
            ctx.violate("C04|" + tag + "headers-differ|%s|status-%s|%s" % (kind, ws, ",".join(names)[:60]), "only on wsgi %r, only on asgi %r %s" % (only_w, only_a, where))
        if wb != ab:
            ctx.violate("C04|" + tag + "body-differs|%s|status-%s" % (kind, ws), "wsgi %d bytes %r, asgi %d bytes %r %s" % (len(wb), wb[:40], len(ab), ab[:40], where))


def short(o):
    return tuple(x if not isinstance(x, (bytes, list)) else (x[:40] if isinstance(x, bytes) else x[:6]) for x in o)


def summarise(tree):
    t = tree["t"]
    if t == "resp":
        return "resp:" + tree["recipe"]["kind"]
    if t in ("router", "subpaths", "hosts"):
        key = {"router": "routes", "subpaths": "mounts", "hosts": "hosts"}[t]
        return "%s(%s)" % (t, ", ".join("%s->%s" % (p, summarise(s)) for p, s in tree[key]))
    if "inner" in tree:
        return "%s(%s)" % (t, summarise(tree["inner"]))
    if t in ("files", "pages"):
        return "%s:%s" % (t, tree["dir"])
    return t


def leaf_kind(tree):
    """A stable coarse discriminator for keys."""
    s = set()

    def walk(n):
        if n["t"] == "resp":
            s.add(n["recipe"]["kind"])
        elif n["t"] in ("files", "pages", "dump", "raises"):
            s.add(n["t"])
        for key in ("routes", "mounts", "hosts"):
            if key in n:
                for _, sub in n[key]:
                    walk(sub)
        if "inner" in n:
            walk(n["inner"])
    walk(tree)
    return "+".join(sorted(s))[:50] or "none"


def _common_view(request, body, js, form):
    from baize.exceptions import HTTPException
    v = {}

    def safe(name, fn):
        try:
            v[name] = fn()
        except HTTPException as e:
            v[name] = ("http-exception", e.status_code)
        except Exception as e:
            v[name] = ("exception", type(e).__name__)

    safe("method", lambda: request.method)
    safe("url", lambda: str(request.url))
    safe("url_parts", lambda: (request.url.scheme, request.url.netloc, request.url.path, request.url.query))
    safe("headers", lambda: sorted(dict(request.headers).items()))
    safe("query", lambda: request.query_params.multi_items())
    safe("cookies", lambda: sorted(request.cookies.items()))
    safe("content_type", lambda: (str(request.content_type), request.content_type.type, sorted(request.content_type.options.items())))
    safe("content_length", lambda: request.content_length)
    safe("accepted_types", lambda: [str(m) for m in request.accepted_types])
    safe("accepts", lambda: [request.accepts(x) for x in ("text/html", "application/json", "image/png")])
    safe("client", lambda: tuple(request.client))
    safe("date", lambda: None if request.date is None else request.date.isoformat())
    safe("referrer", lambda: None if request.referrer is None else str(request.referrer))
    safe("path_params", lambda: sorted((k, repr(val)) for k, val in request.path_params.items()))
    v["body"] = body
    v["json"] = js
    v["form"] = form
    return v


def _guard_sync(fn):
    from baize.exceptions import HTTPException
    try:
        return fn()
    except HTTPException as e:
        return ("http-exception", e.status_code)
    except Exception as e:
        return ("exception", type(e).__name__, str(e)[:60])


def dump_sync(request, order="bjf"):
    from baize.datastructures import UploadFile

    def form():
        out = []
        for k, val in request.form.multi_items():
            if isinstance(val, UploadFile):
                val.seek(0)
                out.append((k, ("file", val.filename, sorted(dict(val.headers).items()), val.content_type, val.read())))
            else:
                out.append((k, val))
        return out

    got = {}
    for c in order:
        if c == "b":
            got["b"] = _guard_sync(lambda: request.body)
        elif c == "j":
            got["j"] = _guard_sync(lambda: request.json)
        else:
            got["f"] = _guard_sync(form)
    v = _common_view(request, got["b"], got["j"], got["f"])
    request.close()
    return v


async def dump_async(request, order="bjf"):
    from baize.datastructures import UploadFile
    from baize.exceptions import HTTPException

    async def guard(coro_fn):
        try:
            return await coro_fn()
        except HTTPException as e:
            return ("http-exception", e.status_code)
        except Exception as e:
            return ("exception", type(e).__name__, str(e)[:60])

    async def get_body():
        return await request.body

    async def get_json():
        return await request.json

    async def get_form():
        out = []
        for k, val in (await request.form).multi_items():
            if isinstance(val, UploadFile):
                await val.aseek(0)
                out.append((k, ("file", val.filename, sorted(dict(val.headers).items()), val.content_type, await val.aread())))
            else:
                out.append((k, val))
        return out

    got = {}
    for c in order:
        if c == "b":
            got["b"] = await guard(get_body)
        elif c == "j":
            got["j"] = await guard(get_json)
        else:
            got["f"] = await guard(get_form)
    v = _common_view(request, got["b"], got["j"], got["f"])
    await request.close()
    return v


PROP = C04
