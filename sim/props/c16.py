"""C16 - cookies round-trip exactly and expire when asked.

One run is a multi-request client/server history on a virtual wall clock, with the
process time zone as a per-run configuration:

* server: a small application on one of the two interfaces (baize.wsgi through
  WsgiPeer, baize.asgi through AsgiHttpPeer under SimLoop) that, per request, records
  ``request.cookies`` and executes a script of ``set_cookie(name, value, expires?,
  max_age?)`` / ``delete_cookie(name)`` calls on its response;
* client: an RFC 6265 cookie jar (sim/models/cookiejar.py) that parses every
  Set-Cookie line the way a user agent does (value = raw text up to the first ';',
  no unquoting, Max-Age over Expires, expiry against the virtual clock) and sends
  ``Cookie: a=..; b=..`` with the stored raw text on the next request - all live
  cookies together in a seeded order, and one of them alone;
* between requests the clock jumps (0, 1, 59, 3600, 86400, -3600, to just before /
  after the zone's next DST transition).

What the statement promises and what is therefore demanded (nothing else is):

 (1) every Set-Cookie value is pure ASCII without CR/LF/NUL (bytes on ASGI, native
     str on WSGI - the two gateway presentations of "serialised as ASCII");
 (2) for every cookie the jar sends, ``request.cookies[name]`` is the ORIGINAL value
     string, alone and among others in any order.  Precondition (generator): names are
     RFC 7230 tokens, values are strings over code points 0..255;
 (3) Expires, read by the RFC 6265 5.1.1 date algorithm (always UTC), is
     int(virtual now) + requested seconds.  Only the truncation to the whole second is
     tolerated; the clock is kept on a microsecond grid so that second is unambiguous.
     If the text is additionally readable as an RFC 5322 date *with* a zone, that
     reading must denote the same instant ("as a GMT date");
 (4) Max-Age, read by RFC 6265 5.2.2 (optional '-', digits only), is the requested
     number, whenever max_age >= 0 was requested;
 (5) after delete_cookie(name) - if it is the last call for that name on the response -
     the jar holds no such cookie at the instant the response arrives.  The statement
     says "already expired" without naming the attribute; the jar is the judge, so
     Max-Age=0 alone, or an Expires that is not in the future alone, both satisfy it.
     A cookie whose Expires equals the current second counts as expired (browsers'
     reading; RFC 6265's "in the past" could be read as strictly earlier - both
     readings are accepted by using the lenient one, see cookiejar.py).
 (6) history restatement of (3)/(4): a second jar is fed the REQUESTED lifetimes
     (same code, same instants); the set of live cookie names of the two jars must be
     equal whenever a request is sent.  By construction this can differ only if an
     emitted attribute differs from the requested one in a way a user agent sees.

Not demanded (not in the statement): attribute order/case, Path/SameSite defaults,
the weekday name, absence of phantom cookies, what an Expires attribute on the
*deleting* cookie says when Max-Age=0 already expires it (probe only).
"""
import calendar
import email.utils
import os
import string

from ..asgi_peer import AsgiHttpPeer
from ..core import HarnessError, Prop, jsonable
from ..httpreq import AbstractRequest
from ..loop import SimDeadlock, SimStepLimit, SimTimeLimit, run_sim
from ..models.cookiejar import CookieJar, parse_set_cookie
from ..simclock import (ZONES, SimClock, crosses_transition, installed, is_dst, next_transition, transitions,
                        utcoffset)
from ..wsgi_peer import WsgiPeer

# zone list can be narrowed for experiments (e.g. VERIF_C16_ZONES=UTC); the hard probes
# tz_non_utc / dst_zone then stay at zero and the driver answers exit 3, never "held".
_ZONES = tuple(z for z in os.environ.get("VERIF_C16_ZONES", "").split(",") if z) or ZONES

TCHAR = "!#$%&'*+-.^_`|~" + string.digits + string.ascii_letters
_UNQUOTED = set(TCHAR + ":")
NAME_POOL = ("a", "b", "sid", "A")
ODD_NAMES = ("path", "expires", "max-age", "$Version", "!#$%&'*+-.^_`|~", "0", "Secure", "a.b-c_d")
PLAIN_VALUES = ("v", "abc123", "x.y-z_~", "1", "deadbeef:01")
SPECIALS = '"\\;,= \t\r\n\x00\x7f\x80\xff\xa0\x85%+a:/()<>?@[]{}0'
LOOKALIKES = ('"quoted"', "\\073", '\\"', "a\\", '"', '""', "\\\\", "\\1", "\\0123", "\\400", "a=b; c=d", "a, b",
              "expires=Thu, 01 Jan 1970 00:00:00 GMT", "\xe9", "caf\xe9 \xfc", "=", "==", ";", ",", "\\054x", "'",
              "%3B", "a;max-age=0", "x\r\nSet-Cookie: evil=1")
PADDED = (" ", "  ", " x", "x ", " x ", "\tx", "x\t", " a b ", "\xa0x\xa0", "\x1fx\x1f")
EXPIRES = (3600, 1, 59, 60, 86400, 1800, 7 * 86400, 31536000, 315360000, 0, -1, -86400, 4 * 3600 + 1,
           # seconds from now, however many: beyond thirty years, beyond 2**31
           946080001, 10 ** 9, 2 ** 31 - 1, 2 ** 31 + 5)
MAX_AGES = (3600, 0, 1, 59, 86400, 31536000, 2 ** 31 - 1, 2 ** 31)
JUMPS = (0, 1, 59, 3600, 86400, -3600, ("dst", -1), ("dst", 1), ("dst", -1800), ("dst", 3600))
FRACS = (0.0, 0.25, 0.5, 0.999999)
NEAR = (-1, 1, 0, -3600, 3599, -61, -86400, 86399)
RESP_KINDS = ("plain", "empty", "json")


def _ts(y, mo, d, h=0, mi=0, s=0):
    return calendar.timegm((y, mo, d, h, mi, s, 0, 0, 0))


ORDINARY = (_ts(2026, 1, 15, 12), _ts(2026, 7, 4, 8, 30, 15), _ts(2026, 9, 26, 11, 47, 3), _ts(2026, 2, 28, 23, 59, 30),
            _ts(2027, 12, 31, 23, 59, 59), _ts(2026, 6, 30, 23, 59, 59), _ts(2028, 2, 29, 0, 0, 0))


def _dst_instants_2026(zone):
    tr = [t for t in transitions(zone) if _ts(2026, 1, 1) <= t < _ts(2027, 1, 1)]
    if not tr:
        tr = [t for z in ("America/New_York", "Europe/London") for t in transitions(z)
              if _ts(2026, 1, 1) <= t < _ts(2027, 1, 1)]
    return tr


def char_class(c):
    o = ord(c)
    if c == '"':
        return "dquote"
    if c == "\\":
        return "backslash"
    if c == ";":
        return "semicolon"
    if c == ",":
        return "comma"
    if c == "=":
        return "equals"
    if c in " \t":
        return "wsp"
    if o < 32 or o == 127:
        return "control"
    if o >= 128:
        return "high"
    if c in _UNQUOTED:
        return "token-char"
    return "other-ascii"


def diff_class(exp, got):
    """Stable description of where ``got`` departs from ``exp``."""
    n = min(len(exp), len(got))
    for i in range(n):
        if exp[i] != got[i]:
            return "differs-at-" + char_class(exp[i])
    if len(got) < len(exp):
        return "truncated-at-" + char_class(exp[n])
    return "extra-tail"


def gen_name(t):
    k = t.weighted([(6, "pool"), (2, "rand"), (1, "odd")])
    if k == "pool":
        return t.choice(NAME_POOL)
    if k == "odd":
        return t.choice(ODD_NAMES)
    return "".join(TCHAR[t.draw(len(TCHAR))] for _ in range(1 + t.draw(6)))


def gen_value(t):
    k = t.weighted([(3, "plain"), (3, "specials"), (3, "any"), (2, "lookalike"), (1, "empty"), (1, "padded"), (1, "window"),
                    (1, "mixed")])
    if k == "plain":
        return t.choice(PLAIN_VALUES)
    if k == "empty":
        return ""
    if k == "specials":
        return "".join(SPECIALS[t.draw(len(SPECIALS))] for _ in range(1 + t.draw(6)))
    if k == "any":
        return "".join(chr(t.draw(256)) for _ in range(1 + t.draw(8)))
    if k == "lookalike":
        return t.choice(LOOKALIKES)
    if k == "padded":
        return t.choice(PADDED)
    if k == "window":
        s = t.draw(256)
        return "".join(chr((s + i) % 256) for i in range(16))
    return t.choice(PLAIN_VALUES) + "".join(SPECIALS[t.draw(len(SPECIALS))] for _ in range(1 + t.draw(3))) + t.choice(LOOKALIKES)


def run_sync(coro):
    """Drive a coroutine that never really suspends (the WSGI history)."""
    try:
        coro.send(None)
    except StopIteration as e:
        return e.value
    coro.close()
    raise HarnessError("the sequential history suspended")


class C16(Prop):
    id = "C16"
    level = "exploration"
    title = "cookies round-trip exactly and expire when asked"
    rule = ("one run = one process time zone (UTC, Asia/Shanghai, America/New_York, Europe/London, Asia/Kolkata, "
            "Pacific/Kiritimati, Pacific/Pago_Pago), one start instant (ordinary, or within a day of a 2026 DST transition, "
            "with a sub-second part), one interface (WSGI or ASGI) and a history of 2..4 requests between which the virtual "
            "wall clock jumps by 0 / 1 / 59 / 3600 / 86400 / -3600 s or to just before/after the zone's next DST transition; "
            "each request runs 1..4 set_cookie/delete_cookie calls (token names, values over code points 0..255, expires "
            "and max_age from small sets incl. 0 and negative expires) and an RFC 6265 cookie jar returns the live cookies "
            "together (seeded order) and one alone; non-trivial = a clock jump happened or the zone's offset was non-zero; "
            "distinct = distinct SHA-1 of the scheduling-event sequence (zone, instants, jumps, requests, send events)")
    assumptions = ("the user agent is RFC 6265 section 5 (value text stored verbatim, Max-Age over Expires, 5.1.1 dates read "
                   "as UTC); a cookie whose expiry equals the current instant counts as expired",
                   "one Cookie header per request, pairs joined by '; '; all cookies use the default path and no domain",
                   "the virtual clock is on a microsecond grid and now+expires stays below 2**31, so the whole second of an "
                   "instant is unambiguous in binary floating point",
                   "server and client share one wall clock (no skew between them); ASGI send latency moves it forward",
                   "time reaches baize only through the names `time` and `datetime` in baize.responses and the process TZ")
    components = {"real": ["baize.responses.BaseResponse.set_cookie/delete_cookie/list_headers", "baize.datastructures.Cookie",
                           "baize.requests.MoreInfoFromHeaderMixin.cookies", "baize.wsgi.Request/Response/PlainTextResponse/"
                           "JSONResponse", "baize.asgi.Request/Response/PlainTextResponse/JSONResponse", "http.cookies._unquote "
                           "(CPython)", "datetime.fromtimestamp + libc tzset/localtime with real zoneinfo files"],
                  "stub": ["wall clock (SimClock via baize.responses.time/datetime)", "process TZ chosen per run (os.environ['TZ'] + "
                           "tzset)", "user agent (RFC 6265 CookieJar)", "WSGI server (WsgiPeer)", "ASGI server + event loop "
                           "(AsgiHttpPeer, SimLoop)"]}
    hard_probes = ("clock_jump", "clock_step_back", "dst_transition_crossed", "tz_non_utc", "tz_utc", "dst_zone", "wsgi_run",
                   "asgi_run", "roundtrip_alone", "roundtrip_among", "expires_checked", "maxage_checked", "delete_checked",
                   "expires_spans_dst_transition", "zone_offset_zero_in_non_utc_zone", "lifetime_compared", "cookie_expired_in_jar")
    quick_runs = 300000
    thorough_runs = 3000000
    batch = 1000

    # -- plan ----------------------------------------------------------------
    def gen_plan(self, t):
        iface = t.choice(("wsgi", "asgi"))
        zone = t.choice(_ZONES)
        if t.draw(2) == 0:
            start = t.choice(ORDINARY)
        else:
            start = t.choice(_dst_instants_2026(zone)) + t.choice(NEAR)
        start += t.choice(FRACS)
        names = []
        steps = []
        nsteps = 1 + t.draw(3)
        for si in range(nsteps + 1):
            final = si == nsteps
            step = {"jump": 0 if si == 0 else t.choice(JUMPS), "resp": t.choice(RESP_KINDS), "ops": []}
            for _ in range(0 if final else 1 + t.draw(4)):
                if names and t.draw(6) == 5:
                    step["ops"].append({"op": "del", "name": t.choice(names)})
                    continue
                name = gen_name(t)
                life = t.weighted([(3, "session"), (2, "expires"), (2, "max_age"), (1, "both")])
                op = {"op": "set", "name": name, "value": gen_value(t),
                      "expires": t.choice(EXPIRES) if life in ("expires", "both") else None,
                      "max_age": t.choice(MAX_AGES) if life in ("max_age", "both") else -1}
                names.append(name)
                step["ops"].append(op)
            # the view works for a while between building the response object and each cookie call
            for op in step["ops"]:
                op["lag"] = t.choice([0, 0, 0, 0.75, 30, 4000])
            steps.append(step)
        return {"iface": iface, "zone": zone, "start": start, "steps": steps}

    def describe(self, plan, variant=None):
        d = dict(plan)
        d["start_utc"] = email.utils.formatdate(int(plan["start"]), usegmt=True)
        return jsonable(d)

    def nontrivial(self, plan, ctx, variant):
        return bool(ctx.faults)

    # -- execute -------------------------------------------------------------
    def execute(self, plan, ctx, variant=None):
        clock = SimClock(plan["start"])
        zone, iface = plan["zone"], plan["iface"]
        ctx.actors = 2
        ctx.sch("config", iface, zone, plan["start"])
        with installed(clock, zone):
            if iface == "wsgi":
                ctx.probe("wsgi_run")
                run_sync(self._history(plan, ctx, clock, _WsgiServer(ctx, clock, zone)))
            else:
                ctx.probe("asgi_run")

                async def scenario(loop):
                    clock.attach(loop)
                    try:
                        await self._history(plan, ctx, clock, _AsgiServer(ctx, clock, zone, loop))
                    finally:
                        clock.detach()

                try:
                    _, loop = run_sim(scenario, ctx.sched, ctx, vcap=600.0, step_cap=20000)
                except (SimDeadlock, SimTimeLimit, SimStepLimit) as e:
                    # a plain response that never completes is not this property's business
                    raise HarnessError("C16 ASGI history did not finish: %r" % (e,))
                if loop.errors:
                    raise HarnessError("C16 ASGI loop errors: %r" % (loop.errors[:3],))

    # -- the client/server history ----------------------------------------------
    async def _history(self, plan, ctx, clock, server):
        iface, zone = plan["iface"], plan["zone"]
        jar, ideal = CookieJar(), CookieJar()
        for si, step in enumerate(plan["steps"]):
            if si:
                self._jump(ctx, clock, zone, step["jump"])
            now = clock.peek()
            if zone == "UTC":
                ctx.probe("tz_utc")
            elif utcoffset(zone, now) == 0:
                ctx.probe("zone_offset_zero_in_non_utc_zone")
            self._compare_live(ctx, iface, jar, ideal, now, "before-request")
            entries = jar.live(now)
            # one cookie alone
            if len(entries) >= 2:
                solo = entries[ctx.sched.draw(len(entries))]
                ctx.sch("req", si, "solo", 1)
                res = await server.request([solo], [], "plain")
                self._check_roundtrip(ctx, iface, "alone", [solo], res)
                self._check_response(ctx, iface, zone, res, jar, ideal)
            # all live cookies together, in a seeded order
            order = list(entries)
            for i in range(len(order) - 1):
                j = i + ctx.sched.draw(len(order) - i)
                order[i], order[j] = order[j], order[i]
            ctx.sch("req", si, "main", len(order))
            res = await server.request(order, step["ops"], step["resp"])
            self._check_roundtrip(ctx, iface, "alone" if len(order) == 1 else "among", order, res)
            self._check_response(ctx, iface, zone, res, jar, ideal)

    def _jump(self, ctx, clock, zone, jump):
        old = clock.peek()
        if isinstance(jump, (tuple, list)):
            nt = next_transition(zone, old)
            if nt is None:
                d = 182 * 86400          # the zone has no transitions: just a long jump
            else:
                d = nt + jump[1] - int(old)
            kind = "dst%+d" % jump[1]
        else:
            d = jump
            kind = "rel"
        clock.jump(d)
        new = clock.peek()
        ctx.sch("jump", kind, d, new)
        ctx.sim_time += abs(d)
        if d:
            ctx.fault("clock_jump")
        if d < 0:
            ctx.fault("clock_step_back")
        if crosses_transition(zone, int(old), int(new)):
            ctx.fault("dst_transition_crossed")

    # -- oracle (2): round trip -------------------------------------------------
    def _check_roundtrip(self, ctx, iface, mode, sent, res):
        if res["seen_exc"] is not None:
            ctx.violate("C16|%s|roundtrip-%s|cookies-raised|%s" % (iface, mode, type(res["seen_exc"]).__name__),
                        "request.cookies raised %r for Cookie: %r" % (res["seen_exc"], res["cookie_header"]))
            return
        seen = res["seen"]
        if seen is None:
            return   # the application never ran; reported by _check_response
        ctx.ev("seen", mode, sorted(seen.items()))
        for e in sent:
            want = e.meta[0]
            ctx.probe("roundtrip_" + mode)
            if e.name not in seen:
                ctx.violate("C16|%s|roundtrip-%s|cookie-missing" % (iface, mode),
                            "cookie %r (original value %r, sent as %r) is absent from request.cookies %r; Cookie: %r"
                            % (e.name, want, e.value, seen, res["cookie_header"]))
            elif seen[e.name] != want:
                ctx.violate("C16|%s|roundtrip-%s|value-%s" % (iface, mode, diff_class(want, seen[e.name])),
                            "cookie %r: set_cookie value %r, Set-Cookie text %r, request.cookies gives %r; Cookie: %r"
                            % (e.name, want, e.value, seen[e.name], res["cookie_header"]))
        if set(seen) - {e.name for e in sent}:
            ctx.probe("phantom_cookie_names_seen")   # informational: not promised by the statement

    # -- oracles (1) (3) (4) (5) (6) on one response ---------------------------------
    def _check_response(self, ctx, iface, zone, res, jar, ideal):
        if res["app_exc"] is not None:
            ctx.violate("C16|%s|response-raised|%s" % (iface, type(res["app_exc"]).__name__),
                        "sending the response raised %r" % (res["app_exc"],))
        t_recv = res["t_recv"]
        ok_ops = []
        for op, t_call, exc in res["rec"]:
            if exc is not None:
                ctx.violate("C16|%s|%s-raised|%s" % (iface, "set_cookie" if op["op"] == "set" else "delete_cookie", type(exc).__name__),
                            "%r raised %r" % (op, exc))
            else:
                ok_ops.append((op, t_call))
        if res["headers"] is None:
            if res["app_exc"] is None:
                raise HarnessError("no response headers and no exception")
            return
        lines = []
        for h in res["headers"]:
            try:
                k, v = h
            except (TypeError, ValueError):
                continue
            kk = k.decode("latin-1") if isinstance(k, (bytes, bytearray)) else k
            if isinstance(kk, str) and kk.lower() == "set-cookie":
                lines.append(v)
        if len(lines) != len(ok_ops):
            ctx.violate("C16|%s|set-cookie-count|%s" % (iface, "fewer" if len(lines) < len(ok_ops) else "more"),
                        "%d set/delete calls, %d Set-Cookie lines: %r" % (len(ok_ops), len(lines), lines))
        last_op = {}
        for (op, t_call), raw in zip(ok_ops, lines):
            name = op["name"]
            E = op.get("expires") if op["op"] == "set" else 0
            off_now = utcoffset(zone, t_call)
            off_tgt = utcoffset(zone, int(t_call) + E) if E is not None else off_now
            tzd = "tz-offset-nonzero" if (off_now or off_tgt) else "tz-offset-zero"
            text = self._check_ascii(ctx, iface, raw, op)
            ctx.ev("set-cookie", text)
            sc = parse_set_cookie(text)
            if sc is None:
                ctx.violate("C16|%s|set-cookie-unparsable" % iface, "a user agent ignores %r (from %r)" % (text, op))
                continue
            if sc.name != name:
                ctx.violate("C16|%s|set-cookie-name-differs" % iface, "requested name %r, user agent reads %r from %r" % (name, sc.name, text))
            last_op[name] = (op, sc, tzd)
            if op["op"] == "set":
                value, M = op["value"], op["max_age"]
                if E is not None:
                    self._check_expires(ctx, iface, zone, op, t_call, E, off_now, off_tgt, tzd, sc, text)
                if M >= 0:
                    self._check_max_age(ctx, iface, M, sc, text)
                ideal.put(name, None, M if M >= 0 else None, int(t_call) + E if E is not None else None, t_recv, meta=(value, tzd))
            else:
                value = ""
                # what a deletion must achieve is judged below by the jar; its ideal form is Max-Age=0
                ideal.put(name, None, 0, int(t_call), t_recv, meta=(value, tzd))
                if sc.expires_ts is not None and sc.expires_ts > t_recv:
                    ctx.probe("deleting_cookie_expires_in_future_saved_by_max_age" if (sc.max_age is not None and sc.max_age <= 0)
                              else "deleting_cookie_expires_in_future")
            jar.receive(sc, t_recv, meta=(value, tzd))
        # (5) deletion
        for name, (op, sc, tzd) in last_op.items():
            if op["op"] != "del":
                continue
            ctx.probe("delete_checked")
            held = jar.get(name, t_recv)
            if held is not None:
                ctx.violate("C16|%s|delete|cookie-still-held|%s" % (iface, tzd),
                            "after delete_cookie(%r) at virtual %s (zone %s) the user agent still holds %r=%r until %r; Set-Cookie attributes %r"
                            % (name, _fmt(t_recv), zone, held.name, held.value, held.expiry, sc.attrs))
                jar.drop(name)
                ideal.drop(name)
        self._compare_live(ctx, iface, jar, ideal, t_recv, "after-response")

    def _check_ascii(self, ctx, iface, raw, op):
        if iface == "asgi":
            if not isinstance(raw, (bytes, bytearray)):
                ctx.violate("C16|asgi|set-cookie-not-bytes|%s" % type(raw).__name__, repr(raw)[:200])
                text = raw if isinstance(raw, str) else repr(raw)
            else:
                text = bytes(raw).decode("latin-1")
        else:
            if type(raw) is not str:
                ctx.violate("C16|wsgi|set-cookie-not-native-str|%s" % type(raw).__name__, repr(raw)[:200])
                text = bytes(raw).decode("latin-1") if isinstance(raw, (bytes, bytearray)) else repr(raw)
            else:
                text = raw
        bad = [c for c in text if ord(c) > 127]
        if bad:
            ctx.violate("C16|%s|set-cookie-not-ascii" % iface, "non-ASCII %r in %r (from %r)" % (bad[0], text, op))
            # keep the jar's view inside Latin-1 (what could travel in a header at all)
            text = "".join(c if ord(c) < 256 else "?" for c in text)
        for c, nm in (("\r", "CR"), ("\n", "LF"), ("\x00", "NUL")):
            if c in text:
                ctx.violate("C16|%s|set-cookie-contains-%s" % (iface, nm), "%r (from %r)" % (text, op))
        return text

    def _check_expires(self, ctx, iface, zone, op, t_call, E, off_now, off_tgt, tzd, sc, text):
        ctx.probe("expires_checked")
        want = int(t_call) + E
        if crosses_transition(zone, int(t_call), want):
            ctx.probe("expires_spans_dst_transition")
        if sc.expires_raw is None:
            ctx.violate("C16|%s|expires-missing|%s" % (iface, tzd), "expires=%r requested, no Expires attribute in %r" % (E, text))
            return
        got = sc.expires_ts
        if got is None:
            ctx.violate("C16|%s|expires-unparsable|%s" % (iface, tzd), "RFC 6265 5.1.1 cannot read %r" % (sc.expires_raw,))
            return
        where = "set_cookie(%r, expires=%r) at virtual %s, process zone %s (UTC offset now %+d s, at the target instant %+d s, DST %s)" % (
            op["name"], E, _fmt(t_call), zone, off_now, off_tgt, "active" if is_dst(zone, want) else "inactive")
        if got != want:
            err = got - want
            if off_tgt and err == off_tgt:
                ec = "error-equals-utc-offset"
            elif off_now and err == off_now:
                ec = "error-equals-utc-offset-at-call"
            elif abs(err) <= 1:
                ec = "error-one-second"
            else:
                ec = "error-other"
            ctx.violate("C16|%s|expires-wrong-instant|%s|%s" % (iface, tzd, ec),
                        "%s: Expires=%r denotes %s, expected %s (off by %+d s)" % (where, sc.expires_raw, _fmt(got), _fmt(want), err))
            return
        # the same text read as an RFC 5322 / HTTP date: if it carries a zone, that reading must agree
        try:
            dt = email.utils.parsedate_to_datetime(sc.expires_raw)
        except (TypeError, ValueError, IndexError):
            dt = None
        if dt is not None and dt.tzinfo is not None and int(dt.timestamp()) != want:
            ctx.violate("C16|%s|expires-not-a-gmt-date|%s" % (iface, tzd),
                        "%s: %r read with its zone denotes %s, expected %s" % (where, sc.expires_raw, _fmt(int(dt.timestamp())), _fmt(want)))

    def _check_max_age(self, ctx, iface, M, sc, text):
        ctx.probe("maxage_checked")
        if sc.max_age_raw is None:
            ctx.violate("C16|%s|max-age-missing|requested-%s" % (iface, "zero" if M == 0 else "positive"),
                        "max_age=%r requested, no Max-Age attribute in %r" % (M, text))
        elif sc.max_age is None:
            ctx.violate("C16|%s|max-age-not-an-integer" % iface, "Max-Age=%r (requested %r) is ignored by RFC 6265 5.2.2" % (sc.max_age_raw, M))
        elif sc.max_age != M:
            ctx.violate("C16|%s|max-age-wrong-number" % iface, "Max-Age=%r, requested %r" % (sc.max_age_raw, M))

    def _compare_live(self, ctx, iface, jar, ideal, now, when):
        n0 = len(jar.store)
        a = {e.name: e for e in jar.live(now)}
        if len(a) < n0:
            ctx.probe("cookie_expired_in_jar")
        i = {e.name: e for e in ideal.live(now)}
        ctx.probe("lifetime_compared")
        for name in [n for n in a if n not in i]:
            e = a[name]
            ctx.violate("C16|%s|lifetime|kept-after-requested-expiry|%s" % (iface, e.meta[1]),
                        "%s, virtual %s: the user agent still holds %r (until %s) although the requested lifetime has ended"
                        % (when, _fmt(now), name, _fmt(e.expiry)))
            jar.drop(name)
        for name in [n for n in i if n not in a]:
            e = i[name]
            ctx.violate("C16|%s|lifetime|dropped-before-requested-expiry|%s" % (iface, e.meta[1]),
                        "%s, virtual %s: the user agent no longer holds %r although the requested lifetime lasts until %s"
                        % (when, _fmt(now), name, _fmt(e.expiry)))
            ideal.drop(name)


def _fmt(t):
    if t == float("inf"):
        return "end-of-session"
    if t == float("-inf"):
        return "the-earliest-time"
    return "%s (%r)" % (email.utils.formatdate(int(t), usegmt=True), t)


# ---------------------------------------------------------------------------
# the server side: one application per interface
# ---------------------------------------------------------------------------
class _Server:
    def __init__(self, ctx, clock, zone):
        self.ctx, self.clock, self.zone = ctx, clock, zone

    def run_ops(self, resp, ops, rec):
        ctx, clock, zone = self.ctx, self.clock, self.zone
        for op in ops:
            if op.get("lag"):
                ctx.fault("time_passes_before_cookie_call")
                clock.jump(op["lag"])
                ctx.sim_time += op["lag"]
            t_call = clock.time()
            if utcoffset(zone, t_call):
                ctx.fault("tz_non_utc")
            if is_dst(zone, t_call):
                ctx.fault("dst_zone")
            try:
                if op["op"] == "set":
                    kw = {}
                    if op["expires"] is not None:
                        kw["expires"] = op["expires"]
                    if op["max_age"] != -1:
                        kw["max_age"] = op["max_age"]
                    resp.set_cookie(op["name"], op["value"], **kw)
                else:
                    resp.delete_cookie(op["name"])
            except Exception as e:  # noqa - reported as a violation by the oracle
                rec.append((op, t_call, e))
            else:
                rec.append((op, t_call, None))

    @staticmethod
    def new_result(entries):
        return {"seen": None, "seen_exc": None, "rec": [], "headers": None, "app_exc": None, "t_recv": None,
                "cookie_header": CookieJar.cookie_header(entries) if entries else None}

    @staticmethod
    def abstract_request(out):
        hdr = out["cookie_header"]
        return AbstractRequest("GET", "/", headers=[("cookie", hdr)] if hdr is not None else [])


class _WsgiServer(_Server):
    async def request(self, entries, ops, kind):
        from baize.wsgi import JSONResponse, PlainTextResponse, Request, Response
        out = self.new_result(entries)

        def app(environ, start_response):
            req = Request(environ)
            try:
                out["seen"] = dict(req.cookies)
            except Exception as e:  # noqa
                out["seen_exc"] = e
            if kind == "empty":
                resp = Response(204)
            elif kind == "json":
                resp = JSONResponse({"cookies": out["seen"] or {}})
            else:
                resp = PlainTextResponse("ok")
            self.run_ops(resp, ops, out["rec"])

            def sr(status, headers, exc_info=None):
                out["headers"] = list(headers)
                return start_response(status, headers, exc_info)

            return resp(environ, sr)

        peer = WsgiPeer(self.ctx, self.ctx.sched, self.abstract_request(out), short_reads=False)
        peer.run(app)
        out["app_exc"] = peer.exc if peer.exc is not None else peer.close_exc
        out["t_recv"] = self.clock.peek()
        return out


class _AsgiServer(_Server):
    SEND_LATS = (0.0, 0.0, 0.0, 0.05, 1.0)

    def __init__(self, ctx, clock, zone, loop):
        super().__init__(ctx, clock, zone)
        self.loop = loop

    async def request(self, entries, ops, kind):
        from baize.asgi import JSONResponse, PlainTextResponse, Request, Response
        out = self.new_result(entries)

        async def app(scope, receive, send):
            req = Request(scope, receive, send)
            try:
                out["seen"] = dict(req.cookies)
            except Exception as e:  # noqa
                out["seen_exc"] = e
            if kind == "empty":
                resp = Response(204)
            elif kind == "json":
                resp = JSONResponse({"cookies": out["seen"] or {}})
            else:
                resp = PlainTextResponse("ok")
            self.run_ops(resp, ops, out["rec"])
            await resp(scope, receive, send)

        peer = AsgiHttpPeer(self.loop, self.ctx, self.ctx.sched, self.abstract_request(out), send_lats=self.SEND_LATS)

        async def send(msg):
            if isinstance(msg, dict) and msg.get("type") == "http.response.start" and out["headers"] is None:
                out["headers"] = list(msg.get("headers", []))
            await peer.send(msg)

        try:
            await app(peer.scope, peer.receive, send)
        except Exception as e:  # noqa - reported as a violation by the oracle
            out["app_exc"] = e
        out["t_recv"] = self.clock.peek()
        return out


PROP = C16
