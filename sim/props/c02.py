"""C02 - file responses deliver exactly the requested bytes with truthful framing.

The ASGI path is a stream pump through the event loop and the executor with a chunk-size
knob, a server-capability switch (zero-copy send) and a random multipart boundary; the WSGI
path is a generator the server drains.  Fault space (thin, see DESIGN 3.2): knobs and
configurations, executor / send latencies (which must not change the result).  Oracle: an
RFC 7233 resolver over integer sets; multipart/byteranges bodies are parsed by declared length.
"""
import asyncio
import os
import random

from .. import fs as simfs
from ..asgi_peer import AsgiHttpPeer
from ..core import Prop, jsonable
from ..httpreq import AbstractRequest
from ..loop import SimDeadlock, SimStepLimit, SimTimeLimit, run_sim
from ..models import ranges as rg
from ..wsgi_peer import WsgiPeer


def pattern(n):
    return bytes(((i * 7 + (i >> 8) * 13 + (i >> 16)) % 251) for i in range(n))


class C02(Prop):
    id = "C02"
    level = "exploration"
    rule = ("one run = (file size from {0,1,c-1,c,c+1,2c,3c+1,..} relative to the drawn chunk size c, Range header from a grammar of "
            "1..5 specs a-b / a- / -n (overlapping, nested, adjacent, out of order, beyond EOF) or a wholly malformed value or another "
            "unit, If-Range from {absent, exact ETag, exact Last-Modified, weak ETag, stale ETag, other date, junk}, interface in "
            "{wsgi, asgi, asgi+zero-copy}, send/executor latencies); GET and HEAD are both executed; non-trivial = a Range was sent "
            "and the body took >= 2 emissions or a latency fault fired; distinct = distinct digests of the emission sequence")
    assumptions = ("where RFC 7233 and the wording leave room both readings are accepted: over-long suffix 416 or 206 of the whole file; a set mixing "
                   "satisfiable specs with specs beyond EOF 416 or 206 of exactly the satisfiable ones; a malformed or other-unit Range may be 400, 416 or ignored (200 whole file)",
                   "partially-junk range sets are not generated", "canonical form of the part list is not demanded (that is C03)")
    components = {"real": ["baize.asgi.responses.FileResponse (handle_all/single/several, fake_sendfile, zero-copy)", "baize.wsgi.responses.FileResponse",
                           "baize.responses.FileResponseMixin", "baize.concurrency.run_in_threadpool", "os.open/lseek/read on real temp files"],
                  "stub": ["ASGI server incl. zero-copy reader", "WSGI server", "event loop clock/selector, executor inlined at seeded instants", "random boundary fixed by random.seed"]}
    hard_probes = ("multipart_206", "single_206", "status_416", "status_400", "if_range_match", "if_range_mismatch", "zerocopy_message", "executor_latency", "head_compared", "file_modified_after_validators_were_handed_out", "caller_shares_one_headers_object")
    quick_runs = 150000
    thorough_runs = 2000000
    batch = 500

    def setup(self, workdir):
        self.workdir = workdir
        self.fs = simfs.install(workdir + "/fs")
        self.have = {}

    def file_for(self, size, frac=0.0):
        rel = "c02/%d-%d.bin" % (size, int(frac * 1e7))
        if (size, frac) not in self.have:
            self.fs.write(rel, pattern(size), mtime=1_600_000_000.0 + size + frac, ctime=1_600_000_000.0 + size + frac)
            self.have[(size, frac)] = True
        return rel

    def gen_plan(self, t):
        c = t.choice([1, 2, 3, 7, 16, 4096, 4096, 262144])
        sizes = [0, 1, max(0, c - 1), c, c + 1, 2 * c, 3 * c + 1, 10, 100, 1000]
        size = t.choice(sizes) if t.draw(4) else t.draw(3000)
        if size > 70000:
            size = 70000 + size % 1000
        if size // c > 300:
            c = size // (2 + t.draw(50)) + 1
        if t.draw(6) == 0:
            c = t.choice([max(1, size), size + 1, max(1, size - 1)])
        rng, kind = (None, "absent") if t.draw(6) == 0 else rg.gen_range(t, size, c)
        return {"size": size, "chunk": c, "range": rng, "if_range": t.weighted([(5, "absent"), (2, "etag"), (2, "lm"), (1, "weak"), (1, "stale"), (1, "otherdate"), (1, "junk")]),
                "iface": t.choice(["wsgi", "asgi", "asgi-zc"]), "lat": t.choice(["fast", "mixed"]), "ctype": t.choice([None, None, "text/x-a", "application/octet-stream"]),
                # history: the file is rewritten (same size, other bytes, mtime moved by this many seconds) after the client
                # obtained its validators - they are then no longer the file's CURRENT validators
                "modify": t.choice([None, None, None, None, 0.3, 1.0, 5.0]),
                # sub-second part of the file's mtime (HTTP dates round it) and a caller-owned Headers object shared by all responses of the run
                "mtime_frac": t.choice([0.0, 0.0, 0.5, 0.25, 0.9999996, 0.999999]), "shared_headers": t.draw(3) == 0,
                "http_version": t.choice(["1.1", "1.1", "1.0", "2"]), "via_symlink": t.draw(10) == 0}

    def nontrivial(self, plan, ctx, variant):
        return plan["range"] is not None and (ctx.notes.get("emissions", 0) >= 3 or bool(ctx.faults))

    # -- one request -------------------------------------------------------------
    def _request(self, plan, ctx, method, headers, rel, rseed=424242):
        req = AbstractRequest(method, "/f", headers=headers, body=b"", http_version=plan.get("http_version", "1.1"))
        random.seed(rseed)    # the multipart boundary must coincide for GET and HEAD
        if plan["iface"] == "wsgi":
            from baize.wsgi import FileResponse
            peer = WsgiPeer(ctx, ctx.sched, req)
            peer.run(FileResponse(self.fs.path(rel), self._shared, content_type=plan["ctype"], chunk_size=plan["chunk"]))
            if peer.exc is not None or peer.close_exc is not None:
                return {"exc": peer.exc or peer.close_exc}
            return {"status": peer.status, "headers": peer.header_list(), "body": peer.body, "emissions": peer.n_items, "exc": None}
        from baize.asgi import FileResponse
        lats = {"fast": (0.0,), "mixed": (0.0, 0.0, 0.2, 1.0)}[plan["lat"]]

        async def scenario(loop):
            peer = AsgiHttpPeer(loop, ctx, ctx.sched, req, zerocopy=(plan["iface"] == "asgi-zc"), send_lats=lats)
            resp = FileResponse(self.fs.path(rel), self._shared, content_type=plan["ctype"], chunk_size=plan["chunk"])
            try:
                await resp(peer.scope, peer.receive, peer.send)
            except (asyncio.CancelledError, SimDeadlock, SimTimeLimit, SimStepLimit):
                raise
            except Exception as e:  # noqa - an exception leaving the response call is its outcome (as on WSGI)
                return {"exc": e}
            peer.monitor.on_return()
            return {"status": peer.status, "headers": peer.header_list(), "body": peer.body, "emissions": peer.send_calls, "exc": None, "complete": peer.complete}

        try:
            res, loop = run_sim(scenario, ctx.sched, ctx, vcap=100000.0, step_cap=500000)
        except (SimDeadlock, SimTimeLimit, SimStepLimit) as e:
            return {"hang": e}
        return res

    def execute(self, plan, ctx, variant=None):
        size = plan["size"]
        frac = plan.get("mtime_frac", 0.0)
        rel = self.file_for(size, frac)
        content = pattern(size)
        if plan.get("via_symlink"):
            # the served path is a symbolic link to the file (a release directory switched by a symlink)
            link = "c02/link-%d-%d" % (size, int(frac * 1e7))
            lp = self.fs.path(link)
            if not os.path.islink(lp):
                os.makedirs(os.path.dirname(lp), exist_ok=True)
                os.symlink(self.fs.path(rel), lp)
            rel = link
            ctx.probe("served_through_symlink")
        base_mtime = 1_600_000_000.0 + size + frac
        self._shared = None
        if plan.get("shared_headers"):
            from baize.datastructures import Headers
            self._shared = Headers({"x-site": "1"})
            ctx.probe("caller_shares_one_headers_object")
        if plan.get("modify") and size > 0:
            rel = "c02/mod.bin"
            self.fs.write(rel, content, mtime=base_mtime, ctime=base_mtime)
        surf = plan["iface"]
        ctx.actors = 2

        def fail(clause, detail):
            ctx.violate("C02|%s|%s" % (surf, clause), "%s [size=%d chunk=%d range=%r if_range=%s]" % (detail, size, plan["chunk"], plan["range"], plan["if_range"]))

        # 1. learn the validators like a client would
        first = self._request(plan, ctx, "GET", [], rel)
        if first.get("complete") is False:
            fail("response-never-terminated|GET|%s" % first["status"], "plain GET: no event with more_body false")
            return
        if first.get("hang") or first.get("exc"):
            fail("plain-get-failed|%s" % type(first.get("hang") or first.get("exc")).__name__, repr(first.get("hang") or first.get("exc")))
            return
        h0 = dict(first["headers"])
        if first["status"] != 200 or first["body"] != content:
            fail("plain-get-wrong", "status %s, %d body bytes (file has %d)" % (first["status"], len(first["body"]), size))
            return
        if h0.get("content-length") != str(size):
            fail("content-length-mismatch|200", "declared %r, sent %d" % (h0.get("content-length"), len(first["body"])))
        etag, lm = h0.get("etag"), h0.get("last-modified")
        if not etag or not lm:
            fail("validators-missing", "etag=%r last-modified=%r" % (etag, lm))
            return
        # 2. the conditional/ranged request, GET and HEAD
        headers = []
        if plan["range"] is not None:
            headers.append(("range", plan["range"]))
        ir = plan["if_range"]
        ir_value = {"absent": None, "etag": etag, "lm": lm, "weak": "W/" + etag, "stale": '"0123456789abcdef0123456789abcdef01234567"',
                    "otherdate": "Wed, 21 Oct 2015 07:28:00 GMT", "junk": "junk"}[ir]
        if ir_value is not None:
            headers.append(("if-range", ir_value))
        # header lines arrive in the order the client wrote them, among unrelated ones
        order = ctx.sched.draw(4)
        if order == 1:
            headers.reverse()
        elif order == 2:
            headers = [("accept", "*/*")] + headers[::-1] + [("user-agent", "sim")]
        elif order == 3:
            headers = [("host", "sim")] + headers[:1] + [("accept-encoding", "identity")] + headers[1:]
        honoured = ir in ("absent", "etag", "lm")
        if plan.get("modify") and size > 0:
            from email.utils import formatdate
            ctx.fault("file_modified_after_validators_were_handed_out")
            content = bytes((b + 1) % 251 for b in content)
            new_mtime = base_mtime + plan["modify"]
            self.fs.write(rel, content, mtime=new_mtime, ctime=new_mtime)
            if ir == "etag":
                honoured = False          # the entity tag the client holds is not the current one any more
            elif ir == "lm":
                honoured = formatdate(new_mtime, usegmt=True) == lm      # within the same second the date cannot tell
        if plan["range"] is not None and ir != "absent":
            ctx.probe("if_range_match" if honoured else "if_range_mismatch")
        get = self._request(plan, ctx, "GET", headers, rel)
        head = self._request(plan, ctx, "HEAD", headers, rel)
        for name, r in (("GET", get), ("HEAD", head)):
            if r.get("hang"):
                fail("hang|%s" % name, repr(r["hang"]))
                return
            if r.get("exc"):
                fail("exception|%s|%s" % (name, type(r["exc"]).__name__), repr(r["exc"]))
                return
            if r.get("complete") is False:
                # truthful framing: the call returned but the body was never terminated (no final body event)
                fail("response-never-terminated|%s|%s" % (name, r["status"]), "%d body bytes in %d emissions, no event with more_body false" % (len(r["body"]), r["emissions"]))
                return
        ctx.notes["emissions"] = get["emissions"]
        ctx.ev("get", get["status"], len(get["body"]), get["emissions"], head["status"], len(head["body"]))
        # HEAD = GET's status and headers, empty body
        ctx.probe("head_compared")
        if head["body"] != b"":
            fail("head-has-body|%s" % head["status"], "%d bytes" % len(head["body"]))
        if head["status"] != get["status"]:
            fail("head-status-differs", "GET %s HEAD %s" % (get["status"], head["status"]))
        elif sorted(head["headers"]) != sorted(get["headers"]):
            fail("head-headers-differ|%s" % get["status"], "GET %r HEAD %r" % (sorted(get["headers"]), sorted(head["headers"])))
        self._judge(plan, ctx, fail, get, content, honoured)
        content = self._boundary_replay(plan, ctx, fail, get, headers, rel, content)
        if self._shared is not None:
            # a later plain request built with the same caller-owned Headers object: nothing of the earlier responses may show
            last = self._request(plan, ctx, "GET", [], rel)
            if last.get("hang") or last.get("exc"):
                fail("plain-get-after-history-failed", repr(last.get("hang") or last.get("exc")))
            elif last["status"] != 200 or last["body"] != content or "content-range" in dict(last["headers"]) or dict(last["headers"]).get("content-length") != str(len(content)):
                fail("plain-get-after-history-differs", "status %s, %d bytes, content-range %r, content-type %r" % (last["status"], len(last["body"]), dict(last["headers"]).get("content-range"), dict(last["headers"]).get("content-type")))
            if dict(self._shared) != {"x-site": "1"}:
                fail("caller-owned-headers-object-modified", repr(dict(self._shared)))

    @staticmethod
    def _boundary_of(resp):
        ct = dict(resp["headers"]).get("content-type", "")
        if resp.get("status") != 206 or not ct.lower().startswith("multipart/byteranges"):
            return None
        for p in ct.split(";")[1:]:
            k, _, v = p.strip().partition("=")
            if k.lower() == "boundary":
                return v.strip('"') or None
        return None

    def _boundary_replay(self, plan, ctx, fail, get, headers, rel, content):
        """History: the client has seen one multipart answer; the file is then replaced (same size, same times) by content that
        quotes that answer's delimiter inside a requested range, and the same ranges are asked for again.  The framing of the new
        answer must still be truthful for a client that scans for delimiters: its boundary may not occur in the data it frames."""
        b1 = self._boundary_of(get)
        if b1 is None or ctx.sched.draw(3):
            return content
        try:
            parts = rg.parse_byteranges(get["body"], b1)
        except rg.ByterangesError:
            return content
        needle = b"\r\n--" + b1.encode("latin-1") + b"\r\n"
        room = [(s_, e_) for s_, e_, _t, _h, _d in parts if e_ - s_ + 1 >= len(needle)]
        if not room:
            return content
        ctx.fault("file_replaced_quoting_the_previous_boundary")
        s_, e_ = room[0]
        new = bytearray(content)
        new[s_:s_ + len(needle)] = needle
        path = self.fs.path(rel)
        st = os.stat(path)
        rel2 = "c02/replaced.bin"       # (the files of file_for() are shared by all runs of this worker: the replacement is a private file
        self.fs.write(rel2, bytes(new), mtime=st.st_mtime, ctime=st.st_ctime)      # with the same size and times, hence the same validators)
        again = self._request(plan, ctx, "GET", headers, rel2, rseed=99991)
        if again.get("hang") or again.get("exc"):
            return content
        b2 = self._boundary_of(again)
        if b2 is None:
            return content
        try:
            parts2 = rg.parse_byteranges(again["body"], b2)
        except rg.ByterangesError as e:
            fail("206-multipart-body-unparseable", "after the file was replaced: %s" % e)
            return content
        mark = b"--" + b2.encode("latin-1")
        for s2, e2, _t, _h, data in parts2:
            if mark in data:
                fail("206-multipart-boundary-occurs-in-part-data", "boundary %r (the previous answer used %r) occurs inside the bytes %d-%d it frames" % (b2, b1, s2, e2))
                return content
        return content

    def _judge(self, plan, ctx, fail, get, content, honoured):
        size = len(content)
        st, body = get["status"], get["body"]
        h = dict(get["headers"])
        cl = h.get("content-length")
        if cl is not None and cl != str(len(body)):
            fail("content-length-mismatch|%s" % st, "declared %r, sent %d" % (cl, len(body)))
        if st in (200, 206) and cl is None:
            fail("content-length-missing|%s" % st, "")
        res = rg.resolve(plan["range"], size) if honoured else {"kind": "absent"}

        if st == 200 and "content-range" in h:
            fail("200-carries-content-range", repr(h.get("content-range")))

        def is_whole():
            return st == 200 and body == content

        def check_error():
            if st == 416:
                ctx.probe("status_416")
                if h.get("content-range") != "*/%d" % size:
                    fail("416-without-content-range-star-size", repr(h.get("content-range")))
            elif st == 400:
                ctx.probe("status_400")
            if body and size >= 4 and len(body) >= 4 and body in content:
                fail("error-response-carries-file-data|%s" % st, repr(body[:40]))

        def check_206(allowed_union):
            ct = h.get("content-type", "")
            if ct.lower().startswith("multipart/byteranges"):
                ctx.probe("multipart_206")
                bnd = None
                for p in ct.split(";")[1:]:
                    k, _, v = p.strip().partition("=")
                    if k.lower() == "boundary":
                        bnd = v.strip('"')
                if not bnd:
                    fail("206-multipart-without-boundary", ct)
                    return
                try:
                    parts = rg.parse_byteranges(body, bnd)
                except rg.ByterangesError as e:
                    fail("206-multipart-body-unparseable", "%s; body head %r" % (e, body[:80]))
                    return
                got = []
                for s, e, total, ph, data in parts:
                    if total != str(size):
                        fail("206-part-content-range-total-wrong", "%s/%s" % (e, total))
                    if e >= size or data != content[s:e + 1]:
                        fail("206-part-bytes-differ-from-content-range", "part %d-%d carries %r" % (s, e, data[:20]))
                    got.append((s, e))
                if not parts:
                    fail("206-multipart-without-parts", "")
                if rg.positions(got) != rg.positions(allowed_union):
                    fail("206-multipart-wrong-byte-set", "parts %r, header denotes %r" % (got, rg.union_intervals(allowed_union)))
            else:
                ctx.probe("single_206")
                cr = h.get("content-range")
                m = rg.CR_RE.match(cr.encode("latin-1")) if cr else None
                if not m:
                    fail("206-without-valid-content-range", repr(cr))
                    return
                s, e, total = int(m.group(1)), int(m.group(2)), m.group(3).decode()
                if e < s:
                    fail("206-content-range-last-before-first", "%r with %d body bytes" % (cr, len(body)))
                    return
                if total != str(size):
                    fail("206-content-range-total-wrong", cr)
                if e >= size or body != content[s:e + 1]:
                    fail("206-body-differs-from-content-range", "%r but %d bytes sent" % (cr, len(body)))
                if rg.positions([(s, e)]) != rg.positions(allowed_union):
                    fail("206-single-wrong-byte-set", "sent %d-%d, header denotes %r" % (s, e, rg.union_intervals(allowed_union)))

        kind = res["kind"]
        if kind == "absent":
            if not is_whole():
                fail("range-honoured-although-if-range-does-not-match" if plan["range"] is not None and not honoured else "no-range-but-not-whole-200",
                     "status %s, %d bytes" % (st, len(body)))
            return
        if kind in ("malformed", "other-unit"):
            if st in (400, 416):
                check_error()
            elif not is_whole():
                fail("malformed-range-answered-%s" % st, "%d bytes, content-range %r" % (len(body), h.get("content-range")))
            return
        sat, beyond, overlong = res["sat"], res["beyond"], res["overlong"]
        if not sat:
            if st in (400, 416):
                check_error()
            else:
                fail("unsatisfiable-range-answered-%s" % st, "%d bytes" % len(body))
            return
        if st == 206:
            check_206(sat)
        elif st in (400, 416) and (beyond or overlong):
            check_error()     # both readings accepted
        else:
            fail("satisfiable-range-answered-%s" % st, "%d bytes; denoted %r" % (len(body), rg.union_intervals(sat)))


PROP = C02
