"""C14 - conditional requests never yield a stale 304 and always revalidate a fresh copy.

One run = one HISTORY (<= 8 ops) over 1-2 files that live in SimFS (real bytes, virtual
st_mtime/st_ctime) while a virtual file clock advances by a seeded amount from
{0, .3, .999, 1, 1.5, 2, 3600} s before every op:

  modifications   rewrite_same_size | rewrite_other_size | touch        (mtime = ctime = now)
                  set_mtime_future | set_mtime_past   (clock skew: mtime = now +- 86400, ctime = now)
                  ctime_only                          (ctime = now, mtime unchanged, e.g. chmod)
  requests        plain GET, or GET carrying the validators a client holds after an earlier
                  response j of the same file: If-None-Match = ETag as received / W/-prefixed /
                  one member (first, middle, last; strong or weak) of a comma separated list of
                  junk tags / '*';  If-Modified-Since = Last-Modified of j;  both together.

The same baize Files/Pages application object (one per interface) serves the whole
history.  Every written content is unique (file index + version counter inside the bytes),
so a served body is attributable to exactly one version.

Reference model: a version counter per file and the list of its modifications (size before/
after, mtime before/after).  A "cache entry" is what a client holds after response j: the ETag
and Last-Modified of the 200 it came from plus the model state at that time (a 304 leaves the
entry it revalidated unchanged).  For a request carrying entry e, M = modifications since e,
SIG = those of M that changed the size or moved mtime by >= 1 s:

  (a) SIG non-empty           -> a 304 is stale                                  [stale-304]
  (b) SIG non-empty           -> 200, body = current bytes, ETag != e's ETag     [etag-unchanged-after-change,
                                 (Last-Modified differs when mtime moved >= 1 s)   last-modified-unchanged-after-change,
                                                                                   200-without-validators]
  (c) M empty, ETag of e sent -> 304 (strong, weak, any list member)             [not-revalidated]
      '*' (sent alone)        -> 304 for an existing file                        [not-revalidated|sent=star]
  (d) plain                   -> 200 with the current bytes                      [plain-not-200]
  always                      -> a 304 has an empty body [304-with-body]; a 200 carries exactly the
                                 current bytes [200-wrong-body]; the answer is 200 or 304 [not-200-or-304]
  M non-empty, SIG empty (sub-second same-size rewrites/touches, ctime-only changes): the statement
  promises nothing about 200-vs-304 -> either is accepted.  If-Modified-Since alone on an unchanged
  file: the statement only promises ETag revalidation -> either is accepted.

Time is kept in integer milliseconds in the model (exact ">= 1 s" decisions) and handed to SimFS
as ms / 1000.0.
"""
import asyncio
import os

from .. import fs as simfs
from ..asgi_peer import AsgiHttpPeer
from ..core import Prop, jsonable
from ..httpreq import AbstractRequest
from ..loop import SimDeadlock, SimStepLimit, SimTimeLimit, run_sim
from ..wsgi_peer import WsgiPeer

BASE_MS = 1_600_000_000_000
DAY_MS = 86_400_000
ADV = [(4, 0), (2, 300), (2, 999), (2, 1000), (1, 1500), (1, 2000), (1, 3_600_000), (1, 10)]
FRACS = [0, 250, 700, 999]
SIZES = [24, 25, 64, 300, 5000, 2, 12]
# (relative path, URLs under Files, extra URLs under Pages)
# (Pages serves index.html only for the root URL "/": "/sub/" is answered by a redirect - C07 territory, not claimed)
FILES = [("docs/page.html", ["/docs/page.html"], ["/docs/page"]), ("index.html", ["/index.html"], ["/", "/index"])]
KINDS = [(6, "req"), (2, "rewrite_other_size"), (2, "rewrite_same_size"), (1, "touch"),
         (1, "set_mtime_future"), (1, "set_mtime_past"), (1, "ctime_only"),
         # the content is replaced and the mtime set explicitly NEAR the old one (restored from a backup, cp -p, an archive): 1..2 s off
         (1, "replace_near_mtime")]
MOD_KINDS = [k for _, k in KINDS[1:]]
INM_FORMS = [(2, "none"), (3, "strong"), (2, "weak"), (3, "list"), (1, "star")]
POS = ["first", "middle", "last"]
SEPS = [", ", ",", " , ", ",\t", ", , ", ",,"]      # the list grammar: OWS around commas, empty elements are skipped by recipients (RFC 7230 7)
JUNK = [('"0a1b2c3d"', '"junk-2"'), ('W/"0a1b2c3d"', '"junk-2"'), ('"0a1b2c3d"', 'W/"junk-2"'), ('W/"0a1b2c3d"', 'W/"junk-2"'),
        ('"caf\xe9-7"', 'W/"\xfc"')]       # entity tags may contain obs-text (bytes >= 0x80)
SEND_LATS = (0.0, 0.0, 0.0, 0.2)


def content(fidx, version, size):
    head = b"<f%d v%d>" % (fidx, version)
    body = head + bytes(97 + ((i + version * 7 + fidx) % 26) for i in range(max(0, size - len(head))))
    return body[:size]


OTHER_CWD = next(d for d in ("/usr/lib/python3", "/usr/share/doc", "/usr/lib", "/usr/share", "/") if os.path.isdir(d))


class FileModel:
    __slots__ = ("idx", "rel", "version", "size", "mtime", "ctime", "skew", "data", "mods", "by_version")

    def __init__(self, idx, rel, size, now):
        self.idx = idx
        self.rel = rel
        self.version = 0
        self.size = size
        self.mtime = now
        self.ctime = now
        self.skew = "none"
        self.data = content(idx, 0, size)
        self.mods = []          # dicts: kind, size0, size1, mt0, mt1, version (after)
        self.by_version = {0: self.data}


class Entry:
    """What a client holds after a 200: validators + the model state they were produced from."""
    __slots__ = ("etag", "lm", "src", "nmods", "version", "size", "mtime", "skew")

    def __init__(self, etag, lm, src, f):
        self.etag = etag
        self.lm = lm
        self.src = src
        self.nmods = len(f.mods)
        self.version = f.version
        self.size = f.size
        self.mtime = f.mtime
        self.skew = f.skew


class C14(Prop):
    id = "C14"
    level = "exploration"
    title = "conditional requests: no stale 304, fresh copies revalidate"
    rule = ("one run = one history of 2..8 ops over 1-2 files on a virtual file clock (advance drawn from {0,.3,.999,1,1.5,2,3600} s "
            "before every op; start instant at 4 sub-second offsets): ops from {rewrite same size, rewrite other size, touch, "
            "set_mtime future/past (clock skew), ctime-only change, plain GET, GET with the validators held after an earlier "
            "response j sent as ETag / W/-ETag / list member (first, middle, last; strong or weak; 3 separators; strong and weak "
            "junk members) / '*' / Last-Modified / both}; app in {Files, Pages (also extension-less and directory URLs)} x "
            "interface in {WSGI, ASGI, both alternating}, the same application object serving the whole history; ASGI send "
            "latencies and executor latencies seeded; evaluations = histories; non-trivial = a clock fault fired or a conditional "
            "request followed a modification; distinct = distinct SHA-1 of the history-event sequence (modifications, clock "
            "advances, requests and answers with virtual time)")
    assumptions = ("validators are only replayed against the file they came from (any URL alias of that file under Pages)",
                   "a 304 leaves the client's cache entry (validators, source version) unchanged",
                   "'moved the timestamps by at least a second' is decided per modification on st_mtime in exact milliseconds; "
                   "ctime-only changes and sub-second same-size rewrites are outside the statement and are not judged either way",
                   "If-Modified-Since alone on an unchanged file may be answered 200 or 304 (the statement promises ETag revalidation only)",
                   "'*' is only sent alone (with If-Modified-Since of an outdated response the statement's clauses would conflict)",
                   "files are not modified while a response is in flight")
    components = {"real": ["baize.staticfiles.BaseFiles (if_none_match, if_modified_since, check_path_is_file, ensure_absolute_path)",
                           "baize.wsgi.staticfiles.Files/Pages", "baize.asgi.staticfiles.Files/Pages",
                           "baize.responses.FileResponseMixin (generate_etag, generate_common_headers)",
                           "baize.wsgi/asgi FileResponse + Response(304)", "real file contents on a temp directory", "email.utils date parsing/formatting"],
                  "stub": ["os.stat overlay: virtual st_mtime/st_ctime (SimFS)", "virtual file clock", "WSGI server (WsgiPeer)",
                           "ASGI server (AsgiHttpPeer) under SimLoop, executor inlined at seeded instants"]}
    hard_probes = ("clock_skew_future_mtime", "clock_skew_past_mtime", "same_second_rewrite", "ctime_only_change",
                   "cond_after_significant_change", "cond_unchanged_etag", "cond_unchanged_weak_list_member_not_first",
                   "cond_star", "both_after_same_second_size_change", "lm_from_future_skew_after_change",
                   "cond_unjudged_subsecond_or_ctime_only", "pages_alias_url", "asgi_request", "wsgi_request",
                   "validators_from_older_response", "two_files")
    quick_runs = 100000
    thorough_runs = 1500000
    batch = 500

    # -- worker ----------------------------------------------------------------
    def setup(self, workdir):
        self.workdir = workdir
        self.fs = simfs.install(workdir + "/fs")

    # -- plan ------------------------------------------------------------------
    def gen_plan(self, t):
        app = t.choice(["Files", "Pages"])
        iface = t.weighted([(2, "wsgi"), (2, "asgi"), (1, "mixed")])
        if t.draw(12) == 0:
            # directed family: two versions whose (mtime, size) pairs collide under an ambiguous encoding of the
            # validator - concatenation without separator ("X.0"+"12" == "X.01"+"2") or sum (mtime+1 s, size-1);
            # the random history generator reaches such pairs about once in 10^6 runs only
            kind = t.choice(["concat", "concat", "sum", "digits", "digits"])
            s2 = t.choice([2, 3, 7, 24])
            if kind == "digits":
                # a validator that is a weak checksum of the decimal (mtime, size) string (byte sum, position-weighted byte
                # sum, digit sum): same size, modification times whose digits differ by +1 -2 +1 on neighbours (81 s, 810 s),
                # by a transposition (9 s, 90 s, 99 s) or by +1 -1 (9 s, 18 s, 27 s) - three starting points per plan
                d = t.choice([81, 81, 810, 8100, 9, 90, 99, 18, 27, 162]) * 1000
                ops = []
                for k in range(3):
                    ops += [{"op": "req", "file": 0, "adv": t.choice([0, 1000, 7000, 13000, 101000]), "alias": t.draw(3), "asgi": t.draw(2), "inm": "none", "ims": False, "j": None},
                            {"op": t.choice(["rewrite_same_size", "touch"]), "file": 0, "adv": d},
                            {"op": "req", "file": 0, "adv": t.choice([0, 0, 300]), "alias": t.draw(3), "asgi": t.draw(2), "inm": t.choice(["strong", "weak"]), "ims": False, "j": 2 * k}]
                return {"app": app, "iface": iface, "nfiles": 1, "frac": t.choice(FRACS), "sizes": [t.choice([5, 24, 100])], "zerocopy": False, "ops": ops, "family": "validator-collision"}
            if kind == "concat":
                frac, d = t.choice([(0, 10), (500, 10), (250, 1)])
                s1 = int("1" + str(s2))
            else:
                frac, d = t.choice(FRACS), 1000
                s1 = s2 + 1
            ops = [{"op": "req", "file": 0, "adv": 0, "alias": t.draw(3), "asgi": t.draw(2), "inm": "none", "ims": False, "j": None},
                   {"op": "rewrite_other_size", "file": 0, "adv": d, "size": s2},
                   {"op": "req", "file": 0, "adv": t.choice([0, 0, 300]), "alias": t.draw(3), "asgi": t.draw(2), "inm": t.choice(["strong", "weak"]), "ims": False, "j": 0},
                   {"op": "req", "file": 0, "adv": 0, "alias": t.draw(3), "asgi": t.draw(2), "inm": "none", "ims": False, "j": None}]
            return {"app": app, "iface": iface, "nfiles": 1, "frac": frac, "sizes": [s1], "zerocopy": False, "ops": ops, "family": "validator-collision"}
        nfiles = 2 if t.draw(4) == 3 else 1
        frac = t.choice(FRACS)
        sizes = [t.choice(SIZES) for _ in range(nfiles)]
        zerocopy = t.draw(4) == 3
        n = 2 + t.draw(7)
        ops = []
        nreq = [0] * nfiles
        cur = list(sizes)
        for _ in range(n):
            adv = t.weighted(ADV)
            f = t.draw(nfiles)
            kind = t.weighted(KINDS)
            if kind != "req":
                op = {"op": kind, "file": f, "adv": adv}
                if kind == "rewrite_other_size":
                    others = [s for s in SIZES if s != cur[f]]
                    op["size"] = cur[f] = t.choice(others)
                if kind == "replace_near_mtime":
                    op["delta"] = t.choice([-1400, -1100, -1900, -1000, 1100, 1400, 1000])
                ops.append(op)
                continue
            op = {"op": "req", "file": f, "adv": adv, "alias": t.draw(3), "asgi": t.draw(2), "inm": "none", "ims": False, "j": None}
            if t.draw(8) == 0:
                # ASGI only: an earlier request to the same file is still in flight (slow executor / slow client) when the
                # file is modified; the judged request is issued after the modification has completed
                mk = t.choice(["rewrite_other_size", "rewrite_same_size", "touch"])
                op["overlap"] = {"op": mk, "file": f, "adv": 0}
                if mk == "rewrite_other_size":
                    others = [s for s in SIZES if s != cur[f]]
                    op["overlap"]["size"] = cur[f] = t.choice(others)
            if nreq[f]:
                op["inm"] = t.weighted(INM_FORMS)
                op["ims"] = t.draw(2) == 1 and op["inm"] != "star"
                back = t.weighted([(4, 0), (1, 1), (1, 2)])
                op["j"] = max(0, nreq[f] - 1 - back)          # index among the earlier requests of this file
                if op["inm"] == "list":
                    op["pos"] = t.choice(POS)
                    op["own"] = t.choice(["strong", "weak"])
                    op["junk"] = t.draw(len(JUNK))
                    op["njunk"] = 2 if op["pos"] == "middle" else 1 + t.draw(2)
                    op["sep"] = t.choice(SEPS)
                    op["lead_empty"] = t.draw(6) == 0
                if op["inm"] == "none" and not op["ims"]:
                    op["j"] = None
                if op["inm"] in ("strong", "weak", "list") and not op["ims"] and t.draw(5) == 0:
                    # an If-Modified-Since that is NOT the date of the held response travels next to the entity tag (a proxy's
                    # own date, a broken client): with If-None-Match present it must be ignored (RFC 7232 3.3)
                    op["ims_noise"] = t.choice(["junk", "", "Thu, 01 Jan 1970 00:00:00 GMT", "Fri, 31 Dec 9999 23:59:59 GMT", "Sun, 06 Nov 1994 08:49:37 GMT"])
            nreq[f] += 1
            ops.append(op)
        return {"app": app, "iface": iface, "nfiles": nfiles, "frac": frac, "sizes": sizes, "zerocopy": zerocopy, "ops": ops,
                "cacheability": t.choice(["public", "public", "private", "no-cache", "no-store"]), "max_age": t.choice([600, 0, 31536000]),
                # the directory is given relative to the cwd and the process changes its working directory later (daemonising, a job runner)
                "relative_dir": t.draw(4) == 0, "chdir_before": t.draw(n + 1) if t.draw(3) == 0 else None}

    def describe(self, plan, variant=None):
        return {"plan": jsonable(plan), "variant": jsonable(variant)}

    def nontrivial(self, plan, ctx, variant):
        return bool(ctx.faults) or ctx.actors >= 2

    # -- execute ---------------------------------------------------------------
    def execute(self, plan, ctx, variant=None):
        # the process wall clock is the virtual one too: code that compares file times with "now" sees the simulated instant
        import time as _time
        fs = self.fs
        real_time = _time.time
        _time.time = lambda: fs.now
        try:
            self._execute(plan, ctx)
        finally:
            _time.time = real_time

    def _execute(self, plan, ctx):
        fs = self.fs
        fs.reset()
        now = BASE_MS + plan["frac"]
        fs.now = now / 1000.0
        files = []
        for i in range(plan["nfiles"]):
            f = FileModel(i, FILES[i][0], plan["sizes"][i], now)
            fs.write(f.rel, f.data, mtime=now / 1000.0, ctime=now / 1000.0)
            files.append(f)
        if plan["nfiles"] == 2:
            ctx.probe("two_files")
        apps = {}
        ifaces = ["wsgi", "asgi"] if plan["iface"] == "mixed" else [plan["iface"]]
        for iface in ifaces:
            if iface == "wsgi":
                from baize.wsgi import Files, Pages
            else:
                from baize.asgi import Files, Pages
            # configuration must not matter for revalidation
            directory = fs.root
            if plan.get("relative_dir"):
                # the application is configured with a path relative to the working directory it is started in
                directory = os.path.relpath(fs.root, os.getcwd())
                ctx.probe("relative_directory")
            apps[iface] = (Files if plan["app"] == "Files" else Pages)(directory, cacheability=plan.get("cacheability", "public"), max_age=plan.get("max_age", 600))
        ctx.sch("start", plan["app"], plan["iface"], now - BASE_MS, [f.size for f in files])

        entries = [[] for _ in files]      # per file: cache entry held after its k-th request (None = nothing held)
        hist = []                          # human readable history for violation details
        total_adv = 0
        cwd0 = os.getcwd()
        try:
            for k, op in enumerate(plan["ops"]):
                if plan.get("chdir_before") == k:
                    ctx.fault("process_changes_working_directory")
                    # a directory from which the start-up-relative path does NOT lead to the same place (from "/" a
                    # leading ".." is absorbed and it would)
                    os.chdir(OTHER_CWD)
                    hist.append("chdir(%r)" % OTHER_CWD)
                if op["adv"]:
                    now += op["adv"]
                    total_adv += op["adv"]
                    fs.now = now / 1000.0
                    ctx.sch("clock", now - BASE_MS)
                f = files[op["file"]]
                if op["op"] == "req":
                    extra = self._request(plan, ctx, apps, f, op, k, now, entries[f.idx], hist, fs)
                    if extra:
                        now += extra
                        total_adv += extra
                        fs.now = now / 1000.0
                else:
                    self._modify(ctx, fs, f, op, now, hist)
        finally:
            os.chdir(cwd0)
            ctx.sim_time += total_adv / 1000.0

    # -- modifications ---------------------------------------------------------
    def _modify(self, ctx, fs, f, op, now, hist):
        kind = op["op"]
        size0, mt0 = f.size, f.mtime
        f.version += 1
        if kind in ("rewrite_same_size", "rewrite_other_size"):
            if kind == "rewrite_other_size":
                f.size = op["size"]
            f.data = content(f.idx, f.version, f.size)
            if now // 1000 == mt0 // 1000:
                ctx.fault("same_second_rewrite")
            f.mtime = f.ctime = now
            f.skew = "none"
            fs.write(f.rel, f.data, mtime=now / 1000.0, ctime=now / 1000.0)
        elif kind == "touch":
            f.mtime = f.ctime = now
            f.skew = "none"
            fs.set_times(f.rel, mtime=now / 1000.0, ctime=now / 1000.0)
        elif kind == "set_mtime_future":
            f.mtime, f.ctime, f.skew = now + DAY_MS, now, "future"
            fs.set_times(f.rel, mtime=f.mtime / 1000.0, ctime=now / 1000.0)
            ctx.fault("clock_skew_future_mtime")
        elif kind == "set_mtime_past":
            f.mtime, f.ctime, f.skew = now - DAY_MS, now, "past"
            fs.set_times(f.rel, mtime=f.mtime / 1000.0, ctime=now / 1000.0)
            ctx.fault("clock_skew_past_mtime")
        elif kind == "replace_near_mtime":
            f.data = content(f.idx, f.version, f.size)
            f.mtime, f.ctime = mt0 + op["delta"], now
            fs.write(f.rel, f.data, mtime=f.mtime / 1000.0, ctime=now / 1000.0)
            ctx.fault("content_replaced_mtime_set_nearby")
        elif kind == "ctime_only":
            f.ctime = now
            fs.set_times(f.rel, ctime=now / 1000.0)
            ctx.fault("ctime_only_change")
        f.by_version[f.version] = f.data
        f.mods.append({"kind": kind, "size0": size0, "size1": f.size, "mt0": mt0, "mt1": f.mtime, "version": f.version})
        ctx.sch("mod", kind, f.idx, f.version, f.size, f.mtime - BASE_MS, f.ctime - BASE_MS)
        hist.append("t+%dms %s f%d -> v%d size=%d mtime=t+%dms ctime=t+%dms" % (now - BASE_MS, kind, f.idx, f.version, f.size, f.mtime - BASE_MS, f.ctime - BASE_MS))

    # -- requests --------------------------------------------------------------
    @staticmethod
    def _if_none_match(op, etag):
        """-> (header value, label of the form for keys)"""
        form = op["inm"]
        if form == "star":
            return "*", "star"
        weak = etag if etag.startswith("W/") else "W/" + etag
        if form == "strong":
            return etag, "etag"
        if form == "weak":
            return weak, "weak-etag"
        own = etag if op["own"] == "strong" else weak
        junk = list(JUNK[op["junk"]])[: op["njunk"]]
        if op["pos"] == "first":
            members = [own] + junk
        elif op["pos"] == "last":
            members = junk + [own]
        else:
            members = [junk[0], own, junk[1]]
        v = op["sep"].join(members)
        if op.get("lead_empty"):
            v = ", " + v                    # a leading empty element
        return v, "list(%s,%s)" % (op["pos"], op["own"])

    def _request(self, plan, ctx, apps, f, op, k, now, held, hist, fs=None):
        self._extra_ms = 0
        self._request_inner(plan, ctx, apps, f, op, k, now, held, hist, fs)
        return self._extra_ms

    def _request_inner(self, plan, ctx, apps, f, op, k, now, held, hist, fs):
        iface = ("asgi" if op["asgi"] else "wsgi") if plan["iface"] == "mixed" else plan["iface"]
        surface = "%s.%s" % (iface, plan["app"])
        urls = FILES[f.idx][1] + (FILES[f.idx][2] if plan["app"] == "Pages" else [])
        url = urls[op["alias"] % len(urls)]
        if url not in FILES[f.idx][1]:
            ctx.probe("pages_alias_url")
        # which validators does the client hold?
        e = None
        if op["j"] is not None and op["j"] < len(held):
            e = held[op["j"]]
            if op["j"] < len(held) - 1 and e is not None:
                ctx.probe("validators_from_older_response")
        headers = []
        form = None
        ims = False
        if op["inm"] == "star" and op["j"] is not None:
            headers.append(("if-none-match", "*"))
            form = "star"
        elif e is not None:
            if op["inm"] in ("strong", "weak", "list") and e.etag is not None:
                v, form = self._if_none_match(op, e.etag)
                headers.append(("if-none-match", v))
            if op["ims"] and e.lm is not None:
                headers.append(("if-modified-since", e.lm))
                ims = True
            elif op.get("ims_noise") is not None and form is not None:
                headers.append(("if-modified-since", op["ims_noise"]))
                ctx.probe("unrelated_if_modified_since_next_to_etag")
        if form != "star" and not headers:
            e = None
        req = AbstractRequest("GET", url, headers=headers, body=b"")
        ctx.sch("req", k, iface, url, tuple(headers), now - BASE_MS)
        ctx.probe(iface + "_request")
        extra_ms = 0
        if iface == "wsgi":
            status, hdrs, body, exc = self._wsgi(ctx, apps[iface], req)
        elif op.get("overlap") and fs is not None:
            ctx.probe("overlapping_earlier_request")
            ctx.fault("modification_while_a_request_is_in_flight")
            state = {"now": now}

            def mid():
                state["now"] += 100
                fs.now = state["now"] / 1000.0
                self._modify(ctx, fs, f, op["overlap"], state["now"], hist)
                state["now"] += 50
                fs.now = state["now"] / 1000.0

            early = AbstractRequest("GET", url, headers=[], body=b"")
            status, hdrs, body, exc = self._asgi(ctx, apps[iface], req, plan["zerocopy"], surface, overlap=(early, mid))
            self._extra_ms = state["now"] - now
            now = state["now"]
        else:
            status, hdrs, body, exc = self._asgi(ctx, apps[iface], req, plan["zerocopy"], surface)
        etag = lm = None
        for hk, hv in hdrs:
            if hk == "etag" and etag is None:
                etag = hv
            elif hk == "last-modified" and lm is None:
                lm = hv
        ctx.sch("resp", k, status, exc, etag, lm, len(body))
        sent = "+".join(x for x in (("etag" if form not in (None, "star") else form), "last-modified" if ims else None) if x) or "plain"
        sent_full = "+".join(x for x in (form, "last-modified" if ims else None) if x) or "plain"
        hist.append("t+%dms GET %s %s [%s%s] -> %s etag=%s lm=%s body=%s" % (
            now - BASE_MS, iface, url, sent_full, (" of response at op %d (v%d)" % (e.src, e.version)) if e is not None and form != "star" else "",
            status if exc is None else exc, (etag or "-")[:9], lm or "-", self._whose(f, body)))

        def bad(clause, disc, why):
            ctx.violate("C14|%s|%s|%s" % (surface, clause, disc), "%s; file f%d now v%d size=%d mtime=t+%dms ctime=t+%dms; history: %s"
                        % (why, f.idx, f.version, f.size, f.mtime - BASE_MS, f.ctime - BASE_MS, " || ".join(hist)))

        # ---- what the client holds afterwards --------------------------------------
        new_entry = e
        if status == 200 and (etag is not None or lm is not None):
            new_entry = Entry(etag, lm, k, f)
        held.append(new_entry)

        # ---- oracle -----------------------------------------------------------------
        if exc is not None or status not in (200, 304):
            bad("not-200-or-304", "sent=%s|got=%s" % (sent, exc if exc is not None else status), "an existing file was answered %s" % (exc or status))
            return
        if status == 304:
            ctx.probe("304_total")
            if body:
                bad("304-with-body", "sent=%s" % sent, "304 carries %d body bytes (%s)" % (len(body), self._whose(f, body)))
        else:
            ctx.probe("200_total")
            if body != f.data:
                bad("200-wrong-body", "sent=%s|body=%s" % (sent, self._whose(f, body).split(":")[0]), "200 does not carry the current bytes: got %s, current is v%d" % (self._whose(f, body), f.version))

        if form is None and not ims:                         # (d) plain
            if status != 200:
                bad("plain-not-200", "got=%s" % status, "a request without validators was answered %s" % status)
            return
        if form == "star":                                   # (c) '*'
            ctx.probe("cond_star")
            if status == 304:
                ctx.probe("304_by_star")
            else:
                bad("not-revalidated", "sent=star", "If-None-Match: * on an existing file was answered %s" % status)
            return

        mods = f.mods[e.nmods:]
        sig = [m for m in mods if m["size0"] != m["size1"] or abs(m["mt1"] - m["mt0"]) >= 1000]
        if mods:
            ctx.actors = 2
        if sig and f.size == e.size and f.mtime == e.mtime and f.data == f.by_version[e.version]:
            # size, mtime and every byte are back to what response j was produced from (e.g. skew, then touch in the
            # same instant): in every respect the statement talks about the file "is unchanged since that response"
            ctx.probe("cond_unjudged_fully_restored")
            return
        if sig:                                              # (a) / (b)
            ctx.probe("cond_after_significant_change")
            after = self._after(e, f, sig)
            if ims and form is not None and f.size != e.size and f.mtime // 1000 == e.mtime // 1000 and e.skew == "none" and f.skew == "none":
                ctx.probe("both_after_same_second_size_change")
            if ims and e.skew == "future":
                ctx.probe("lm_from_future_skew_after_change")
            if status == 304:
                bad("stale-304", "sent=%s|after=%s" % (sent, after),
                    "304 although the file changed since the response the validators came from (op %d, v%d size=%d mtime=t+%dms): %s"
                    % (e.src, e.version, e.size, e.mtime - BASE_MS, ", ".join("%s(size %d->%d, mtime %+dms)" % (m["kind"], m["size0"], m["size1"], m["mt1"] - m["mt0"]) for m in sig)))
                return
            if etag is None or lm is None:
                bad("200-without-validators", "sent=%s|missing=%s" % (sent, "+".join(n for n, v in (("etag", etag), ("last-modified", lm)) if v is None)),
                    "the full response after a modification lacks validators")
            if etag is not None and e.etag is not None and etag == e.etag:
                bad("etag-unchanged-after-change", "sent=%s|after=%s" % (sent, after), "the 200 after a modification carries the ETag of the outdated response (v%d)" % e.version)
            if lm is not None and e.lm is not None and lm == e.lm and abs(f.mtime - e.mtime) >= 1000:
                bad("last-modified-unchanged-after-change", "sent=%s|after=%s" % (sent, after), "mtime moved by %+dms but Last-Modified is still %s" % (f.mtime - e.mtime, lm))
            return
        if not mods:                                         # (c) unchanged
            if form is None:
                ctx.probe("cond_unchanged_last_modified_only_%s" % status)   # not promised either way
                return
            ctx.probe("cond_unchanged_etag")
            weak_later = op["inm"] == "list" and op["own"] == "weak" and op["pos"] != "first"
            if weak_later and not ims:
                ctx.probe("cond_unchanged_weak_list_member_not_first")
            if status == 304:
                if op["inm"] == "list" and op["own"] == "weak":
                    ctx.probe("304_by_weak_list_member")
                return
            bad("not-revalidated", "sent=%s" % sent_full,
                "the file is unchanged since the response the ETag came from (op %d, v%d) but If-None-Match %r was answered %s" % (e.src, e.version, headers[0][1], status))
            return
        # M non-empty, SIG empty: sub-second same-size rewrites / touches, ctime-only changes -> not judged
        ctx.probe("cond_unjudged_subsecond_or_ctime_only")
        ctx.probe("unjudged_answer_%s" % status)

    @staticmethod
    def _after(e, f, sig):
        """Stable label: which kind of modification / skew precedes the judged request.

        <last significant modification | validators-from-<future|past>-skew>[@same-second][,identical-stat|,net-subsecond-same-size]
        @same-second: the file's mtime is (again) in the second of the Last-Modified the client holds;
        identical-stat: size and mtime are exactly those the validators were made from (content differs).
        """
        label = sig[-1]["kind"] if e.skew == "none" else "validators-from-%s-skew" % e.skew
        if f.mtime // 1000 == e.mtime // 1000:
            label += "@same-second"
        if f.size == e.size:
            if f.mtime == e.mtime:
                label += ",identical-stat"
            elif abs(f.mtime - e.mtime) < 1000:
                label += ",net-subsecond-same-size"
        return label

    @staticmethod
    def _whose(f, body):
        if not body:
            return "empty"
        if body == f.data:
            return "current:v%d" % f.version
        for v, d in f.by_version.items():
            if d == body:
                return "old-version:v%d" % v
        return "other:%d bytes %r" % (len(body), body[:12])

    # ======================= WSGI =======================
    def _wsgi(self, ctx, app, req):
        peer = WsgiPeer(ctx, ctx.sched, req, surface="wsgi")
        peer.run(app)
        exc = peer.exc if peer.exc is not None else peer.close_exc
        return peer.status, peer.header_list(), peer.body, (self._excname(exc) if exc is not None else None)

    # ======================= ASGI =======================
    def _asgi(self, ctx, app, req, zerocopy, surface, overlap=None):
        async def scenario(loop):
            early_task = None
            if overlap is not None:
                early_req, mid = overlap
                epeer = AsgiHttpPeer(loop, ctx, ctx.sched, early_req, zerocopy=False, send_lats=(0.0, 0.2, 1.0), surface="asgi-early")

                async def early():
                    try:
                        await app(epeer.scope, epeer.receive, epeer.send)
                    except BaseException as e:  # noqa: the in-flight request itself is not judged
                        if isinstance(e, (asyncio.CancelledError, SimDeadlock, SimTimeLimit, SimStepLimit)):
                            raise

                early_task = loop.create_task(early(), name="early")
                await asyncio.sleep(0.1)
                mid()                       # the modification completes here (model and file system)
                await asyncio.sleep(0.05)
            peer = AsgiHttpPeer(loop, ctx, ctx.sched, req, zerocopy=zerocopy, send_lats=SEND_LATS, surface="asgi")
            exc = None
            try:
                await app(peer.scope, peer.receive, peer.send)
            except BaseException as e:  # noqa
                if isinstance(e, (asyncio.CancelledError, SimDeadlock, SimTimeLimit, SimStepLimit)):
                    raise
                exc = e
            if early_task is not None:
                await asyncio.wait([early_task], timeout=300.0)
                if not early_task.done():
                    early_task.cancel()
            return peer.status, peer.header_list(), peer.body, (self._excname(exc) if exc is not None else None), peer.complete

        try:
            (status, hdrs, body, exc, complete), _loop = run_sim(scenario, ctx.sched, ctx, vcap=600.0, step_cap=20000)
        except (SimDeadlock, SimTimeLimit, SimStepLimit) as e:
            return None, [], b"", "hang:" + type(e).__name__
        if exc is None and not complete:
            exc = "incomplete-response"
        return status, hdrs, body, exc

    @staticmethod
    def _excname(exc):
        name = type(exc).__name__
        code = getattr(exc, "status_code", None)
        return "%s(%s)" % (name, code) if isinstance(code, int) else name


PROP = C14
