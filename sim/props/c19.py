"""C19 - server-sent events reach the client as they were yielded.

Rides on the C06 engines (SimLoop for ASGI, SimThreads for WSGI); the client peer is a
streaming WHATWG EventSource parser fed with the body chunks as the simulated network
re-chunks them.  The simulated part is the timing: producer delays vs. the ping timer,
send back-pressure, thread pre-emption, transport re-chunking; event text is workload.
"""
import asyncio
import re

from ..asgi_peer import AsgiHttpPeer
from ..core import Prop
from ..httpreq import AbstractRequest
from ..loop import SimDeadlock, SimStepLimit, SimTimeLimit, run_sim
from ..models.eventsource import EventSourceParser
from ..wsgi_peer import WsgiPeer

SAFE = ["a", "b", " ", ":", "\n", "\r", "\r\n", "é", "中", "x y", "", "data: z", "\n\n", "  lead", "\U0001f600", ": c"]
EXOTIC = [" ", " ", "\u0085", "\x0b", "\x0c", "\x1c", "\x1d", "\x1e"]
LATIN_EXOTIC = ["\u0085", "\x0b", "\x0c", "\x1c", "\x1d", "\x1e"]
NAMES = ["e", "e:f", "é", " sp", "add", "x y", "update", "trail ", "  two", "sep\u2028", "\x1ckey\x85", "\ttab"]
IDS = ["1", "a b", "é", "0", "id:1", "x\u0085y", "3 ", " 4", "\u2029p", "\x0bv\x0c"]
LINE_SPLIT = re.compile(r"\r\n|\r|\n")


class SpuriousCancel(Exception):
    pass


STATEFUL = {"iso2022_jp": ["日本", "語", "かな", "カ"], "shift_jis_2004": ["日本", "語", "ｶﾅ", "〜"], "hz": ["中文", "汉", "字"]}


async def _anothing():
    return
    yield


def _fits(c, charset):
    try:
        return c.encode(charset).decode(charset) == c
    except (UnicodeError, LookupError):
        return False


def gen_event_stateful(t, charset):
    """Events for a charset whose encoder carries state (escape sequences / shift states): only characters it can encode."""
    own = STATEFUL[charset]
    alpha = ["a", "b", " ", ":", "\n", "\r", "\r\n", "x y", "", "  lead"] + own + own
    ev = {}
    if t.draw(5) != 0:
        ev["data"] = "".join(t.choice(alpha) for _ in range(t.draw(7)))
    if t.draw(5) < 2:
        ev["event"] = t.choice(["e", "add"] + own)
    if t.draw(3) == 0:
        ev["id"] = t.choice(["1", "a b"] + own)
    if t.draw(3) == 0:
        ev["retry"] = t.choice([0, 3000])
    return {k: ("".join(c for c in v if _fits(c, charset)) if isinstance(v, str) else v) for k, v in ev.items()}


def gen_event(t, latin):
    ev = {}
    exotic = LATIN_EXOTIC if latin else EXOTIC
    if t.draw(5) != 0:
        n = t.draw(6)
        use_exotic = t.draw(3) == 0
        alpha = SAFE + exotic if use_exotic else SAFE
        s = "".join(t.choice(alpha) for _ in range(n))
        if latin:
            s = "".join(c for c in s if ord(c) < 256)
        if t.draw(25) == 0:
            # one very long line (longer than every common line buffer) somewhere in the text
            k = t.draw(len(s) + 1)
            s = s[:k] + t.choice("ab ") * t.choice([4097, 65529, 65530, 65537, 70001]) + s[k:]
        ev["data"] = s
    if t.draw(5) < 2:
        nm = t.choice(NAMES)
        ev["event"] = "".join(c for c in nm if ord(c) < 256) if latin else nm
    if t.draw(3) == 0:
        i = t.choice(IDS)
        ev["id"] = "".join(c for c in i if ord(c) < 256) if latin else i
    if t.draw(3) == 0:
        ev["retry"] = t.choice([0, 1, 3000, 99999, 2 ** 31, 2 ** 53 + 1, 10 ** 18 + 1, 2 ** 64 + 1])
    return ev


def order_keys(t, ev):
    """Dict insertion order is part of what the user yields."""
    ks = list(ev)
    out = {}
    while ks:
        k = ks.pop(t.draw(len(ks)))
        out[k] = ev[k]
    return out


def ref_effects(ev):
    """Reference effect(s) of one yielded item: (type, set of acceptable data values (None = no dispatch), id, retry)."""
    datas = set()
    if "data" in ev:
        parts = LINE_SPLIT.split(ev["data"])
        datas.add("\n".join(parts))                       # terminators read as separators
        p2 = parts[:-1] if parts and parts[-1] == "" else parts
        datas.add("\n".join(p2) if p2 else None)           # one trailing terminator dropped
        if ev["data"] == "":
            datas.add(None)
    else:
        datas.add(None)
    return ev.get("event", ""), datas, ev.get("id"), ev.get("retry")


class C19(Prop):
    id = "C19"
    level = "exploration"
    rule = ("one run = 1..4 generated events (any subset of data/event/id/retry, data over CR/LF/CRLF, colons, leading spaces, "
            "non-ASCII and the Unicode separators U+000B/C, U+001C-1E, U+0085, U+2028/9; optionally the same dict object "
            "yielded twice), a charset, producer delays around the ping interval, send latencies / consumer delays, thread "
            "pre-emption rate and a transport re-chunking; the delivered bytes are parsed by a streaming WHATWG EventSource "
            "parser; non-trivial = a ping interleaved, back-pressure, pre-emption or re-chunking fired; distinct = distinct "
            "scheduling-event digests")
    assumptions = ("'lines' of the data are the CR/LF/CRLF-delimited lines; one trailing line terminator may be dropped and an item without "
                   "data or with empty data may dispatch nothing (both readings accepted)",
                   "charsets other than UTF-8 are decoded with the declared charset", "event name and id are single-line (no CR/LF) and id has no NUL")
    components = {"real": ["baize.responses.build_bytes_from_sse", "baize.asgi.responses.SendEventResponse", "baize.wsgi.responses.SendEventResponse",
                           "asyncio.Queue/wait_for (CPython 3.12)"],
                  "stub": ["event loop clock/selector", "ASGI/WSGI server peers", "queue.Queue/executor/Future waiting (SimThreads)", "EventSource client (reference parser)"]}
    hard_probes = ("ping_interleaved", "rechunked", "exotic_separator_in_data", "same_dict_twice", "wsgi_run", "asgi_run", "response_object_reused")
    quick_runs = 120000
    thorough_runs = 1500000
    batch = 250

    def gen_plan(self, t):
        surface = t.weighted([(3, "asgi-sse"), (2, "wsgi-sse")])
        charset = t.weighted([(12, "utf-8"), (4, "latin-1"), (1, "iso2022_jp"), (1, "shift_jis_2004"), (1, "hz")])
        latin = charset == "latin-1"
        P = t.choice([1.0, 2.0])
        n = 1 + t.draw(4)
        events = [order_keys(t, gen_event_stateful(t, charset) if charset in STATEFUL else gen_event(t, latin)) for _ in range(n)]
        twice = None
        if t.draw(6) == 0:
            twice = t.draw(n)   # the item at this index is yielded a second time (same object)
        ds = (0.0, 0.0, 0.001, P / 2, P - 0.001, P, P + 0.001, 2 * P + 0.001)
        plan = {"surface": surface, "charset": charset, "P": P, "events": events, "twice": twice,
                "delays": [t.choice(ds) for _ in range(n + 1)], "end_delay": t.choice((0.0, P + 0.001)),
                "lat": t.choice(["fast", "mixed"]), "rechunk": t.draw(3),
                # the response object is mounted as an application and serves two requests (its feed is re-iterable)
                "reuse": t.draw(6) == 0,
                # (ASGI) the receive channel has nothing to offer besides the request: asking again raises; the client is still there
                "recv_raises": t.draw(8) == 0,
                "shape": t.choice([None] * 9 + ["str-enum", "proxy", "chainmap"]),
                # (ASGI) loop iterations take (virtual) time: timers may fall due between callbacks of one instant
                "tick": t.draw(2) == 0,
                # the request method (fetch-style clients POST to an event stream)
                "method": t.choice(["GET", "GET", "GET", "POST"]),
                # one caller-owned headers dict (an application constant) is handed to a sibling event stream with another
                # charset first, then to the response under test
                "shared_headers": t.draw(5) == 0}
        if surface == "wsgi-sse":
            plan["preempt"] = t.choice([(0, 1), (1, 20), (1, 5)])
            plan["cdelays"] = [t.choice((0.0, 0.0, 0.001, P / 2, P + 0.001)) for _ in range(6)]
        return plan

    def nontrivial(self, plan, ctx, variant):
        return bool(ctx.faults) or bool(ctx.probes.get("ping_interleaved"))

    def execute(self, plan, ctx, variant=None):
        # the items as the user yields them (fresh objects per run; 'twice' re-yields the same object)
        originals = [dict(e) for e in plan["events"]]
        yielded = [dict(e) for e in plan["events"]]
        shape = plan.get("shape")
        if shape == "str-enum":
            # text that is a str subclass (a (str, Enum) member): it IS its value, whatever its __str__/__format__ print
            import enum
            ctx.probe("data_is_str_enum_member")
            for i, e in enumerate(yielded):
                if "data" in e:
                    e["data"] = enum.Enum("Status%d" % i, {"MEMBER": e["data"]}, type=str).MEMBER
        elif shape in ("proxy", "chainmap"):
            # a Mapping that is not a dict
            import collections
            import types
            ctx.probe("event_is_mapping_not_dict")
            yielded = [types.MappingProxyType(e) if shape == "proxy" else collections.ChainMap(e) for e in yielded]
        seq = list(range(len(yielded)))
        if plan["twice"] is not None:
            seq.insert(plan["twice"] + 1, plan["twice"])
            ctx.probe("same_dict_twice")
        if any(c in (e.get("data") or "") for e in originals for c in EXOTIC):
            ctx.probe("exotic_separator_in_data")
        if plan["surface"] == "asgi-sse":
            chunks = self._asgi(plan, ctx, yielded, seq)
        else:
            chunks = self._wsgi(plan, ctx, yielded, seq)
        if chunks is None:
            return
        self._judge(plan, ctx, originals, seq, chunks)

    # ---------------------------------------------------------------------
    def _asgi(self, plan, ctx, yielded, seq):
        from baize.asgi import SendEventResponse
        ctx.probe("asgi_run")
        P = plan["P"]
        lats = {"fast": (0.0,), "mixed": (0.0, 0.0, 0.2, 1.0)}[plan["lat"]]

        async def scenario(loop):
            async def gen():
                for k, idx in enumerate(seq):
                    d = plan["delays"][min(k, len(plan["delays"]) - 1)]
                    if d:
                        await asyncio.sleep(d)
                    ctx.sch("prod", k, round(loop.time(), 6))
                    yield yielded[idx]
                if plan["end_delay"]:
                    await asyncio.sleep(plan["end_delay"])

            class Feed:             # re-iterable: every request iterates it afresh
                def __aiter__(self):
                    return gen()

            peer = AsgiHttpPeer(loop, ctx, ctx.sched, AbstractRequest(plan.get("method", "GET"), "/"), send_lats=lats, surface="asgi-sse", recv_raises_after_script=plan.get("recv_raises", False))
            r = SendEventResponse(Feed() if plan.get("reuse") else gen(), ping_interval=P, charset=plan["charset"], headers=self._common_headers(plan, ctx, SendEventResponse))
            exc = None

            async def call(p):
                tk = loop.create_task(r(p.scope, p.receive, p.send), name="response")
                try:
                    await asyncio.wait([tk])
                finally:
                    if not tk.done():
                        tk.cancel()
                if tk.cancelled():
                    raise SpuriousCancel("the response call ended in CancelledError although nobody cancelled it")
                tk.result()

            try:
                await call(peer)
                if plan.get("reuse"):
                    ctx.probe("response_object_reused")
                    first = b"".join(peer.body_chunks)
                    peer = AsgiHttpPeer(loop, ctx, ctx.sched, AbstractRequest(plan.get("method", "GET"), "/"), send_lats=lats, surface="asgi-sse", recv_raises_after_script=plan.get("recv_raises", False))
                    await call(peer)
                    second = b"".join(peer.body_chunks)
                    if first.replace(b": ping\n\n", b"") != second.replace(b": ping\n\n", b""):
                        ctx.violate("C19|asgi-sse|reused-response-object-delivers-differently", "first request %r, second request %r" % (first[:120], second[:120]))
            except Exception as e:
                exc = e
            await asyncio.sleep(0.01)
            return exc, list(peer.body_chunks), peer.header("content-type")

        try:
            (exc, chunks, ctype), loop = run_sim(scenario, ctx.sched, ctx, vcap=2000.0, tick=(0.0, 1e-7, 2e-7) if plan.get("tick") else None)
        except (SimDeadlock, SimTimeLimit, SimStepLimit) as e:
            ctx.violate("C19|asgi-sse|hang|%s" % type(e).__name__, str(e))
            return None
        ctx.actors = 3
        if exc is not None:
            ctx.violate("C19|asgi-sse|exception|%s" % type(exc).__name__, repr(exc))
            return None
        self._check_ctype(plan, ctx, "asgi-sse", ctype)
        return chunks

    def _wsgi(self, plan, ctx, yielded, seq):
        from baize.wsgi import SendEventResponse
        from .. import threads as T
        ctx.probe("wsgi_run")
        P = plan["P"]
        ctx.notes["qrepr"] = lambda x: type(x).__name__
        with T.simulation(ctx.sched, ctx, trace_files=("baize/wsgi/responses.py",), preempt=plan["preempt"]) as s:
            import time as _t

            def gen():
                for k, idx in enumerate(seq):
                    d = plan["delays"][min(k, len(plan["delays"]) - 1)]
                    if d:
                        _t.sleep(d)
                    yield yielded[idx]
                if plan["end_delay"]:
                    _t.sleep(plan["end_delay"])

            peer = WsgiPeer(ctx, ctx.sched, AbstractRequest(plan.get("method", "GET"), "/"), surface="wsgi-sse")

            def on_item(p, item):
                d = plan["cdelays"][(p.n_items - 1) % len(plan["cdelays"])]
                if d:
                    _t.sleep(d)

            class Feed:
                def __iter__(self):
                    return gen()

            reuse_out = {}

            def consumer():
                resp = SendEventResponse(Feed() if plan.get("reuse") else gen(), ping_interval=P, charset=plan["charset"], headers=self._common_headers(plan, ctx, SendEventResponse))
                if plan.get("reuse"):
                    ctx.probe("response_object_reused")
                    p0 = WsgiPeer(ctx, ctx.sched, AbstractRequest(plan.get("method", "GET"), "/"), surface="wsgi-sse")
                    p0.run(resp)
                    reuse_out["first"] = p0.body
                peer.run(resp, on_item=on_item)

            s.spawn(consumer, "consumer")
            res = s.run()
            snap = (res, s.snapshot(), list(peer.items), peer.exc or peer.close_exc, peer.header("content-type"), s.preemptions)
        res, threads, items, exc, ctype, pre = snap
        if "first" in reuse_out and res == "ok" and exc is None:
            if reuse_out["first"].replace(b": ping\n\n", b"") != b"".join(items).replace(b": ping\n\n", b""):
                ctx.violate("C19|wsgi-sse|reused-response-object-delivers-differently", "first request %r, second request %r" % (reuse_out["first"][:120], b"".join(items)[:120]))
        ctx.actors = 2
        if pre:
            ctx.fault("thread_preemption", pre)
        if res != "ok":
            ctx.violate("C19|wsgi-sse|hang|%s" % res, repr(threads))
            return None
        if exc is not None:
            ctx.violate("C19|wsgi-sse|exception|%s" % type(exc).__name__, repr(exc))
            return None
        self._check_ctype(plan, ctx, "wsgi-sse", ctype)
        return items

    def _common_headers(self, plan, ctx, cls):
        if not plan.get("shared_headers"):
            return None
        ctx.probe("headers_dict_shared_between_responses")
        common = {"X-Accel-Buffering": "no"}
        other = "latin-1" if plan["charset"] != "latin-1" else "utf-8"
        cls(iter(()) if "wsgi" in cls.__module__ else _anothing(), charset=other, headers=common)
        return common

    def _check_ctype(self, plan, ctx, surf, ctype):
        ok = isinstance(ctype, str) and ctype.lower().startswith("text/event-stream") and ("charset=%s" % plan["charset"]) in ctype.lower()
        if not ok:
            ctx.violate("C19|%s|content-type-not-event-stream-with-charset" % surf, repr(ctype))

    # ---------------------------------------------------------------------
    def _judge(self, plan, ctx, originals, seq, chunks):
        surf = plan["surface"]
        body = b"".join(chunks)
        # the network may re-chunk the byte stream arbitrarily
        if plan["rechunk"] == 1:
            ctx.fault("rechunked")
            pieces = [body[i:i + 1] for i in range(len(body))]
        elif plan["rechunk"] == 2 and body:
            ctx.fault("rechunked")
            cuts = sorted({ctx.sched.draw(len(body) + 1) for _ in range(4)})
            pieces = [body[i:j] for i, j in zip([0] + cuts, cuts + [len(body)])]
        else:
            pieces = chunks
        p = EventSourceParser(plan["charset"])
        for c in pieces:
            p.feed(c)
        tail, open_lines = p.pending_garbage()
        if tail or open_lines:
            ctx.violate("C19|%s|stream-ends-inside-a-block" % surf, "unterminated %r, %d lines without closing blank line" % (tail[:60], open_lines))
        pings = [b for b in p.blocks if b.comment_only]
        blocks = [b for b in p.blocks if not b.comment_only]
        if pings:
            ctx.probe("ping_interleaved")
        for b in pings:
            if b.dispatched or b.type or b.id_set is not None or b.retry_set is not None:
                ctx.violate("C19|%s|ping-has-an-effect" % surf, repr(b))
        ctx.ev("blocks", len(p.blocks), len(pings), [(b.dispatched, b.type, b.data, b.id_set, b.retry_set) for b in blocks])
        if len(blocks) != len(seq):
            ctx.violate("C19|%s|block-count|%s" % (surf, "more" if len(blocks) > len(seq) else "fewer"),
                        "%d items yielded, %d non-comment blocks parsed: %r from %r" % (len(seq), len(blocks), blocks, body[:300]))
            return
        first_seen = set()
        for k, (idx, b) in enumerate(zip(seq, blocks)):
            ev = originals[idx]
            etype, datas, eid, retry = ref_effects(ev)
            tag = "repeat" if idx in first_seen else "first"
            first_seen.add(idx)
            got_data = b.data if b.dispatched else None
            if got_data not in datas:
                exotic = any(c in (ev.get("data") or "") for c in EXOTIC)
                ctx.violate("C19|%s|data-differs|%s|%s" % (surf, tag, "exotic-separator" if exotic else "plain"),
                            "item %r -> block %r; acceptable data %r" % (ev, b, sorted(datas, key=repr)))
            if b.type != etype:
                ctx.violate("C19|%s|event-name-differs|%s" % (surf, tag), "item %r -> block %r" % (ev, b))
            if b.id_set != eid:
                ctx.violate("C19|%s|id-differs|%s" % (surf, tag), "item %r -> block %r" % (ev, b))
            if b.retry_set != retry:
                ctx.violate("C19|%s|retry-differs|%s" % (surf, tag), "item %r -> block %r" % (ev, b))
            if b.dispatched:
                # exactly one event per item: type as dispatched
                pass


PROP = C19
