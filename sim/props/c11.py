"""C11 - the WebSocket wrapper only forwards protocol-legal event sequences.

A simulated ASGI WebSocket server peer (sim/models/ws.py) plays a script
``connect, k frames, disconnect(code)`` with seeded arrival latencies and records
every event the wrapper forwards.  The application side is

  variant "seq":  one task running a generated call sequence (<= 8 calls) over every
                  public operation of baize.asgi.WebSocket, legal and illegal;
  variant "conc": accept, then a reader task and a writer task running concurrently
                  (reader: receive / typed receive / async-for until the disconnect,
                  optionally close() afterwards; writer: sends, then close() once or twice).

Oracle: an independent two-variable reference automaton (client_state x
application_state) predicts every call of the sequential variant; global monitors
(forwarding grammar, no receive() after a delivered disconnect, frames in order exactly
once, one close at most, states never move backwards, no hang) run over both variants.

Sub-batches: ``mismatch`` (typed receives meet frames of the other type - the statement
does not say what they return, so only grammar / monotonicity / no-receive-after-
disconnect / no-hang are demanded there) and ``fail_from`` (the server's send() raises
from the n-th call on; afterwards per-call demands on the send side are relaxed to
"a state error is clean" because what "was forwarded" is then a matter of reading).
"""
import asyncio

from ..core import Prop, jsonable
from ..loop import SimDeadlock, SimStepLimit, SimTimeLimit, run_sim
from ..models.ws import (CONNECTED, DISCONNECTED, STATE_NAMES, STATE_ORDER, T_CONNECT, T_DISCONNECT, T_RECEIVE, WsModel, WsPeer,
                         build_script, event_matches, frame_of, grammar_ok, op_event, op_name)

MSG_DELAYS = (0.0, 0.0, 0.1, 0.5)
OP_DELAYS = (0.0, 0.0, 0.0, 0.1, 0.3, 0.5)
RECV_EXTRA = (0.0, 0.0, 0.05, 0.2)
SEND_LATS = (0.0, 0.0, 0.1, 0.4)
CODES = (1000, 1001, 1006, 1011, 4000)
CLOSE_CODES = (None, 1000, 1001, 1011, 3000)
RAW_BOGUS = ({"type": "websocket.bogus"}, {"type": "websocket.receive", "text": "x"}, {"type": "http.response.body", "body": b""},
             {"type": "websocket.connect"},
             # denial-response events are not part of what the wrapper's send() accepts (accept / send / close)
             {"type": "websocket.http.response.start", "status": 403, "headers": []}, {"type": "websocket.http.response.body", "body": b"no"})
STATE_EXC = ("RuntimeError", "AssertionError")
RECV_OPS = ("receive", "receive_text", "receive_bytes", "iter_text", "iter_bytes")
WAIT = 1000.0

OP_WEIGHTS = [(4, "accept"), (4, "recv_typed"), (2, "receive"), (3, "iter_typed"), (3, "send_text"), (2, "send_bytes"),
              (3, "close"), (1, "raw_accept"), (1, "raw_send"), (1, "raw_close"), (1, "raw_bogus")]


def gen_op(t, i):
    kind = t.weighted(OP_WEIGHTS)
    if kind == "accept":
        return ("accept", t.choice([None, None, "chat"]))
    if kind == "recv_typed":
        return ("recv_typed", t.choice(["text", "bytes"]))
    if kind == "receive":
        return ("receive",)
    if kind == "iter_typed":
        return ("iter_typed", t.choice(["text", "bytes"]), t.choice([1, 2, 0, 3]))
    if kind == "send_text":
        return ("send_text", "s%d" % i)
    if kind == "send_bytes":
        return ("send_bytes", b"s%d" % i)
    if kind == "close":
        return ("close", t.choice(CLOSE_CODES))
    if kind == "raw_accept":
        return ("raw", t.choice([{"type": "websocket.accept"}, {"type": "websocket.accept", "subprotocol": "chat", "headers": []}]))
    if kind == "raw_send":
        return ("raw", t.choice([{"type": "websocket.send", "text": "r%d" % i}, {"type": "websocket.send", "bytes": b"r%d" % i}]))
    if kind == "raw_close":
        return ("raw", t.choice([{"type": "websocket.close"}, {"type": "websocket.close", "code": 1001, "reason": "bye"}]))
    return ("raw", t.choice(RAW_BOGUS))


def gen_ops(t):
    n = 1 + t.draw(8)
    ops = []
    if t.draw(2) == 0:
        ops.append((("accept", t.choice([None, None, "chat"])), t.choice(OP_DELAYS)))
    while len(ops) < n:
        op = gen_op(t, len(ops))
        ops.append((op, t.choice(OP_DELAYS)))
        if op[0] == "close" and len(ops) < n and t.draw(3) == 0:      # close twice
            ops.append((("close", t.choice(CLOSE_CODES)), t.choice(OP_DELAYS)))
    return ops


def bad_prefix(types):
    letters = "".join({"websocket.accept": "a", "websocket.send": "s", "websocket.close": "c"}.get(x, "?") for x in types)
    for i in range(1, len(letters) + 1):
        if not grammar_ok(types[:i]):
            p = letters[:i]
            while "ss" in p:
                p = p.replace("ss", "s")
            return p
    return letters


class _Lazy:
    """Detail text that is only built when a violation is actually reported."""
    __slots__ = ("f",)

    def __init__(self, f):
        self.f = f

    def __add__(self, other):
        return self.f() + other

    def __str__(self):
        return self.f()


class _Run:
    """One connection: peer + wrapper under test + model + monitors."""

    def __init__(self, plan, ctx, loop, surf):
        from baize.asgi import WebSocket

        self.plan = plan
        self.ctx = ctx
        self.loop = loop
        self.surf = surf
        self.script = build_script(plan["frames"], plan["code"], plan["reason"], plan["both_keys"])
        self.peer = WsPeer(loop, ctx, ctx.sched, self.script, plan["delays"], recv_extra=RECV_EXTRA, send_lats=SEND_LATS,
                           fail_from=plan["fail_from"])
        self.ws = WebSocket(self.peer.scope, self.peer.receive, self.peer.send)
        self.peer.hook = self.sample
        self.model = WsModel(self.script)
        self.strict = not plan.get("mismatch")
        self.last = {"client_state": 0, "application_state": 0}
        self.returned = []      # every frame value handed to the application, in order
        self.keep = []          # async generators, closed explicitly after the snapshot
        self.items = None
        self.nviol = 0

    def violate(self, clause, disc, detail):
        self.nviol += 1
        self.ctx.violate("C11|%s|%s|%s" % (self.surf, clause, disc), str(detail))

    # -- state monotonicity, sampled after every step and at every protocol event ----
    def sample(self, where="step"):
        ws = self.ws
        try:
            c, a = ws.client_state.name, ws.application_state.name
            if STATE_ORDER[c] == self.last["client_state"] and STATE_ORDER[a] == self.last["application_state"]:
                return
        except (AttributeError, KeyError):
            pass
        for attr in ("client_state", "application_state"):
            v = getattr(ws, attr, None)
            o = STATE_ORDER.get(getattr(v, "name", None))
            if o is None:
                self.violate("state-not-reported", attr, "%s is %r at %s" % (attr, getattr(v, "name", type(v).__name__), where))
                continue
            if o < self.last[attr]:
                self.violate("state-moved-backwards", "%s:%s->%s" % (attr, STATE_NAMES[self.last[attr]], STATE_NAMES[o]),
                             "%s went from %s back to %s (sampled at %s, forwarded so far %r)"
                             % (attr, STATE_NAMES[self.last[attr]], STATE_NAMES[o], where, self.fwd_types()))
            self.last[attr] = o

    def fwd_types(self):
        return [r.get("type") for _, _, r in self.peer.sent]

    # -- one application call ----------------------------------------------------------
    async def invoke(self, op):
        ws = self.ws
        n = op[0]
        self.items = None
        taken0 = len(self.peer.delivered_idx)
        try:
            return await self._invoke(ws, n, op)
        finally:
            # one non-iterating call takes at most ONE event from the server (whatever it then does with it): a frame that a
            # call swallows on its way to another one is lost to the application. (Single-task histories only.)
            took = len(self.peer.delivered_idx) - taken0
            if self.plan["variant"] == "seq" and n in ("accept", "receive", "receive_text", "receive_bytes") and took > 1:
                self.violate("call-took-several-server-events", n, "%s() took %d events from the server: %r"
                             % (n, took, [self.script[j]["type"] for j in self.peer.delivered_idx[taken0:]]))

    async def _invoke(self, ws, n, op):
        try:
            if n == "accept":
                r = await (ws.accept() if op[1] is None else ws.accept(op[1]))
            elif n == "receive":
                r = await ws.receive()
            elif n == "receive_text":
                r = await ws.receive_text()
            elif n == "receive_bytes":
                r = await ws.receive_bytes()
            elif n in ("iter_text", "iter_bytes"):
                g = ws.iter_text() if n == "iter_text" else ws.iter_bytes()
                self.keep.append(g)
                items = self.items = []
                want = op[1]
                async for x in g:
                    items.append(x)
                    if want and len(items) >= want:
                        break
                r = list(items)
            elif n == "send_text":
                r = await ws.send_text(op[1])
            elif n == "send_bytes":
                r = await ws.send_bytes(op[1])
            elif n == "raw":
                r = await ws.send(dict(op[1]))
            elif n == "close":
                r = await (ws.close() if op[1] is None else ws.close(op[1]))
            else:
                raise ValueError(op)
            return ("ok", r)
        except asyncio.CancelledError:
            raise
        except Exception as e:  # noqa: the type is judged by the caller
            return ("exc", type(e).__name__, e)

    def resolve(self, op):
        """Typed receives: in the strict batch the kind follows the message that is really next."""
        if op[0] not in ("recv_typed", "iter_typed"):
            return op
        kind = op[1]
        nxt = self.peer.next_msg()
        fr = frame_of(nxt) if nxt is not None else None
        if op[0] == "recv_typed":
            if self.strict and fr is not None and fr[0] in ("text", "bytes"):
                kind = fr[0]
            return ("receive_" + kind,)
        want = op[2]
        if self.strict and fr is not None and fr[0] in ("text", "bytes"):
            kind = fr[0]
            run = 0
            i = self.peer.claimed
            while i < len(self.script) and frame_of(self.script[i]) is not None and frame_of(self.script[i])[0] == kind:
                run += 1
                i += 1
            if i < len(self.script) and self.script[i]["type"] == T_RECEIVE:    # a frame of the other kind follows
                want = run if not want else min(want, run)
        return ("iter_" + kind, want)

    def log_out(self, who, step, name, out):
        if out[0] == "ok":
            self.ctx.ev("res", who, step, name, "ok", out[1])
        else:
            e = out[2]
            self.ctx.ev("res", who, step, name, out[1], getattr(e, "code", None) if out[1] == "WebSocketDisconnect" else str(e)[:80])

    def collect(self, name, out):
        if name in ("iter_text", "iter_bytes"):
            if self.items:
                self.returned.extend(self.items)
        elif out[0] == "ok":
            if name == "receive":
                fr = frame_of(out[1])
                if fr is not None:
                    self.returned.append(fr[1])
            elif name in ("receive_text", "receive_bytes") and out[1] is not None:
                self.returned.append(out[1])

    def note_mismatch(self, name, nd0):
        """Did a typed receive of this call really meet the connect event or a frame of the other type?"""
        hit = False
        if name in ("receive_text", "receive_bytes", "iter_text", "iter_bytes"):
            kind = name.split("_")[1]
            for j in self.peer.delivered_idx[nd0:]:
                m = self.script[j]
                if m["type"] == T_CONNECT or (m["type"] == T_RECEIVE and frame_of(m)[0] != kind):
                    self.ctx.probe("typed_mismatch")
                    hit = True
        return hit

    # -- sequential variant: model-checked step ---------------------------------------------
    async def step(self, who, i, op0, dl=0.0):
        ctx, peer, model = self.ctx, self.peer, self.model
        if dl:
            await asyncio.sleep(dl)
        op = self.resolve(op0)
        name = op_name(op)
        sp = None
        if self.strict and not model.broken:
            sp = model.spec(op)
            if sp.cls == "illegal":
                ctx.probe("illegal_call")
            elif sp.cls == "either":
                ctx.probe("unspecified_call")
            if name == "close" and sp.cls == "legal" and not sp.fwd:
                ctx.probe("close_twice")
            if name in ("iter_text", "iter_bytes") and sp.end == "break":
                ctx.probe("iter_partial")
            if peer.disc_delivered:
                ctx.probe("call_after_disconnect")
        pre = (len(peer.sent), peer.recv_calls, len(peer.delivered_idx), peer.send_raised)
        ctx.sch("op", who, i, name, round(self.loop.time(), 6))
        out = await self.invoke(op)
        self.sample("after %s" % name)
        self.log_out(who, i, name, out)
        self.collect(name, out)
        mismatched = self.note_mismatch(name, pre[2])
        if out[0] == "exc" and out[1] not in STATE_EXC and out[1] != "WebSocketDisconnect":
            # KeyError is what a typed receive gives for a message without the wanted key: not judged (statement silent)
            ok = (out[1] == "ClientGone" and peer.send_raised > pre[3]) or (out[1] == "KeyError" and mismatched)
            if not ok:
                self.violate("unexpected-exception", "%s|%s" % (out[1], name), "%s escaped %s: %s (state before: %s, forwarded %r)"
                             % (out[1], name, str(out[2])[:100], model.state(), self.fwd_types()))
                model.broken = True
        if sp is not None and not model.broken:
            self.judge(op, name, sp, out, pre)
        if peer.send_raised > pre[3]:
            model.as_unknown = True
        return out

    def judge(self, op, name, sp, out, pre):
        peer, model = self.peer, self.model
        fwd = [r for _, _, r in peer.sent[pre[0]:]]
        recv = peer.recv_calls - pre[1]
        deliv = [self.script[j]["type"] for j in peer.delivered_idx[pre[2]:]]
        peer_raised = peer.send_raised > pre[3]
        st = model.state()
        disc = "%s|%s" % (name, st)
        exc_t = out[1] if out[0] == "exc" else None
        state_exc = exc_t in STATE_EXC
        n0 = self.nviol
        what = _Lazy(lambda: "%s in state %s -> %s; forwarded %r; receive() calls %d %r" % (
            name, st, "returned %r" % (out[1],) if out[0] == "ok" else "raised %s(%s)" % (exc_t, str(out[2])[:60]), fwd, recv, deliv))
        took_connect = sp.connect_ok and recv == 1 and deliv == [T_CONNECT]

        if sp.cls == "illegal" or (sp.cls in ("either", "lenient") and state_exc):
            illegal = sp.cls == "illegal"
            if fwd:
                self.violate("illegal-call-forwarded" if illegal else "raised-but-forwarded", disc, what)
            elif not (recv == 0 or took_connect):
                self.violate("illegal-call-issued-receive" if illegal else "raised-but-consumed", disc, what)
            elif self.items:
                self.violate("illegal-call-returned-frame", disc, what)
            elif illegal and sp.must_raise and out[0] == "ok":
                self.violate("illegal-call-did-not-raise", disc, what)
            if took_connect:
                self.ctx.probe("rejected_accept_consumed_connect")
                model.cs = max(model.cs, CONNECTED)
                model.pos += 1
            if self.nviol > n0:
                model.broken = True
            return

        if sp.cls == "lenient":
            exp = sp.fwd[0]
            if len(fwd) > 1 or (fwd and fwd[0].get("type") != exp[0]):
                self.violate("wrong-forward", disc, what + "; asked for %r" % (exp[0],))
            elif not (recv == 0 or took_connect):
                self.violate("wrong-receive-count", disc, what)
            if took_connect:
                model.cs = max(model.cs, CONNECTED)
                model.pos += 1
            if self.nviol > n0:
                model.broken = True
            return

        # ---- the legal behaviour is demanded ------------------------------------------------
        if state_exc:
            if name == "close":
                self.violate("close-not-idempotent" if model.as_ == DISCONNECTED else "legal-call-raised", disc, what)
            else:
                self.violate("legal-call-raised", disc, what)
            model.broken = True
            return
        fwd_ok = len(fwd) == len(sp.fwd) and all(event_matches(r, e) for r, e in zip(fwd, sp.fwd))
        if not fwd_ok and sp.noop_ok and not fwd:
            fwd_ok = True
            self.ctx.probe("close_noop_after_client_disconnect")
        if not fwd_ok:
            if name == "close" and not sp.fwd:
                self.violate("close-forwarded-twice", disc, what)
            else:
                self.violate("wrong-forward", disc, what + "; expected exactly %r" % ([e[:1] + e[2:] if e[1] == "__raw__" else e for e in sp.fwd],))
        elif recv != sp.recv:
            self.violate("wrong-receive-count", disc, what + "; expected %d" % sp.recv)
        elif exc_t == "ClientGone" and peer_raised:
            pass
        elif not sp.unjudged:
            if sp.exc is not None:
                if exc_t != "WebSocketDisconnect":
                    self.violate("disconnect-not-raised", disc, what + "; expected WebSocketDisconnect(%d)" % sp.exc[1])
                elif getattr(out[2], "code", None) != sp.exc[1]:
                    self.violate("wrong-disconnect-code", disc, what + "; code %r, expected %d" % (getattr(out[2], "code", None), sp.exc[1]))
            elif exc_t == "WebSocketDisconnect":
                if not (sp.items is not None and sp.end == "disconnect" and self.items == sp.items):
                    self.violate("unexpected-disconnect", disc, what)
            elif sp.ret is not None:
                if sp.ret[0] == "msg":
                    m = sp.ret[1]
                    got = out[1]
                    good = isinstance(got, dict) and got.get("type") == m["type"]
                    if good and m["type"] == T_RECEIVE:
                        good = frame_of(got) == frame_of(m)
                    if good and m["type"] == T_DISCONNECT:
                        good = got.get("code") == m["code"]
                    if not good:
                        self.violate("wrong-message-returned", disc, what + "; expected %r" % (m,))
                else:
                    v = sp.ret[1]
                    if not (type(out[1]) is type(v) and out[1] == v):
                        self.violate("wrong-frame-returned", disc, what + "; expected %r" % (v,))
            elif sp.items is not None:
                if self.items != sp.items:
                    self.violate("iter-wrong-items", disc, what + "; expected items %r" % (sp.items,))
        if self.nviol > n0:
            model.broken = True
            return
        model.commit(sp)

    # -- concurrent variant ------------------------------------------------------------------
    def _excused(self):
        """A state error on a call that was legal when it started is excused when another
        task closed meanwhile, the client is gone, or the server's send() has failed."""
        return self.peer.closes_forwarded() > 0 or self.peer.disc_delivered or self.peer.send_raised > 0

    async def conc_call(self, who, i, op, dl):
        """Run one call of a concurrent task; returns (out, events forwarded by this task, receive() calls by this task)."""
        peer = self.peer
        if dl:
            await asyncio.sleep(dl)
        name = op_name(op)
        nf0 = len(peer.sent)
        nr0 = peer.recv_by.get(who, 0)
        entry = (peer.claimed, peer.closes_forwarded(), peer.send_raised, peer.disc_delivered)
        if peer.disc_delivered:
            self.ctx.probe("call_after_disconnect")
        self.ctx.sch("op", who, i, name, round(self.loop.time(), 6))
        out = await self.invoke(op)
        self.sample("after %s by %s" % (name, who))
        self.log_out(who, i, name, out)
        mine = [r for _, w, r in peer.sent[nf0:] if w == who]
        recv = peer.recv_by.get(who, 0) - nr0
        exc_t = out[1] if out[0] == "exc" else None
        if exc_t is not None and exc_t not in STATE_EXC and exc_t != "WebSocketDisconnect":
            if not (exc_t == "ClientGone" and peer.send_raised > entry[2]):
                self.violate("unexpected-exception", "%s|%s" % (exc_t, name), "%s escaped %s in task %s: %s" % (exc_t, name, who, str(out[2])[:100]))
        return out, mine, recv, entry

    async def conc_send(self, who, i, op, dl):
        out, mine, recv, entry = await self.conc_call(who, i, op, dl)
        name = op_name(op)
        exc_t = out[1] if out[0] == "exc" else None
        what = _Lazy(lambda: "%s by %s -> %s; this call forwarded %r; all forwarded %r" % (name, who, "ok" if out[0] == "ok" else exc_t, mine, self.fwd_types()))
        if exc_t in STATE_EXC:
            if mine:
                self.violate("raised-but-forwarded", name, what)
            elif not self._excused():
                self.violate("legal-call-raised", name, what)
        elif out[0] == "ok":
            if not (len(mine) == 1 and event_matches(mine[0], op_event(op))):
                self.violate("wrong-forward", name, what)
        if recv:
            self.violate("send-issued-receive", name, what)
        return out

    async def conc_close(self, who, i, code, dl):
        op = ("close", code)
        out, mine, recv, entry = await self.conc_call(who, i, op, dl)
        exc_t = out[1] if out[0] == "exc" else None
        what = _Lazy(lambda: "close(%r) by %s -> %s; this call forwarded %r; all forwarded %r" % (code, who, "ok" if out[0] == "ok" else exc_t, mine, self.fwd_types()))
        if entry[1] > 0:
            self.ctx.probe("close_twice")
        if exc_t in STATE_EXC or exc_t == "WebSocketDisconnect":
            self.violate("close-not-idempotent" if entry[1] > 0 else "legal-call-raised", "close", what)
        elif len(mine) > 1 or (mine and not event_matches(mine[0], op_event(op))):
            self.violate("wrong-forward", "close", what)
        elif mine and entry[1] > 0:
            self.violate("close-forwarded-twice", "close", what)
        elif out[0] == "ok" and not mine and self.peer.closes_forwarded() == 0 and not entry[3] and not self.peer.send_raised:
            self.violate("close-did-not-forward", "close", what)
        if recv:
            self.violate("send-issued-receive", "close", what)
        return out

    async def reader(self, rp):
        peer = self.peer
        who = "reader"
        style = rp["style"]
        dls = rp["delays"]
        if style in ("iter_text", "iter_bytes"):
            if dls[0]:
                await asyncio.sleep(dls[0])
            g = self.ws.iter_text() if style == "iter_text" else self.ws.iter_bytes()
            self.keep.append(g)
            nr0 = peer.recv_by.get(who, 0)
            self.ctx.sch("op", who, 0, style, round(self.loop.time(), 6))
            n = 0
            out = ("ok", None)
            try:
                async for x in g:
                    self.returned.append(x)
                    self.sample("reader item")
                    self.ctx.ev("item", who, n, x)
                    n += 1
                    d = dls[n % len(dls)]
                    if d:
                        await asyncio.sleep(d)
            except asyncio.CancelledError:
                raise
            except Exception as e:  # noqa
                out = ("exc", type(e).__name__, e)
            self.sample("reader end")
            self.log_out(who, 0, style, out)
            what = "async for over %s ended with %s after %d items; receive() calls %d; forwarded %r" % (
                style, "StopAsyncIteration" if out[0] == "ok" else out[1], n, peer.recv_by.get(who, 0) - nr0, self.fwd_types())
            if out[0] == "ok":
                if not peer.disc_delivered:
                    self.violate("iter-ended-before-disconnect", style, what)
            elif out[1] in STATE_EXC:
                if not self._excused():
                    self.violate("legal-call-raised", style, what)
            elif out[1] != "WebSocketDisconnect":
                self.violate("unexpected-exception", "%s|%s" % (out[1], style), what + ": " + str(out[2])[:100])
        else:
            for i in range(len(self.script) + 2):
                nxt = peer.next_msg()
                if style == "raw":
                    op = ("receive",)
                else:
                    fr = frame_of(nxt) if nxt is not None else None
                    op = ("receive_" + (fr[0] if fr is not None and fr[0] in ("text", "bytes") else rp["pref"]),)
                out, mine, recv, entry = await self.conc_call(who, i, op, dls[i % len(dls)])
                name = op[0]
                exp = self.script[entry[0]] if entry[0] < len(self.script) else None
                exc_t = out[1] if out[0] == "exc" else None
                what = _Lazy(lambda: "%s by reader -> %s; expected next server message %r; receive() calls %d; forwarded %r" % (
                    name, ("returned %r" % (out[1],)) if out[0] == "ok" else "%s(%s)" % (exc_t, getattr(out[2], "code", "")), exp, recv, self.fwd_types()))
                if mine:
                    self.violate("receive-forwarded-an-event", name, what)
                if out[0] == "ok":
                    if name == "receive":
                        got = out[1]
                        good = exp is not None and isinstance(got, dict) and got.get("type") == exp["type"] and frame_of(got) == frame_of(exp) \
                            and (exp["type"] != T_DISCONNECT or got.get("code") == exp["code"])
                        if not good:
                            self.violate("wrong-message-returned", name, what)
                        fr = frame_of(got)
                        if fr is not None:
                            self.returned.append(fr[1])
                        if not isinstance(got, dict) or got.get("type") != T_RECEIVE:
                            break
                    else:
                        fe = frame_of(exp) if exp is not None else None
                        if fe is None or not (type(out[1]) is type(fe[1]) and out[1] == fe[1]):
                            self.violate("wrong-frame-returned", name, what)
                            break
                        self.returned.append(out[1])
                elif exc_t == "WebSocketDisconnect":
                    if exp is None or exp["type"] != T_DISCONNECT:
                        self.violate("unexpected-disconnect", name, what)
                    elif getattr(out[2], "code", None) != exp["code"]:
                        self.violate("wrong-disconnect-code", name, what)
                    break
                elif exc_t in STATE_EXC:
                    if recv:
                        self.violate("raised-but-consumed", name, what)
                    elif not self._excused():
                        self.violate("legal-call-raised", name, what)
                    break
                else:
                    break
        for j, (code, dl) in enumerate(rp["closes"]):
            await self.conc_close(who, 100 + j, code, dl)

    async def writer(self, wp):
        who = "writer"
        for i, (kind, data, dl) in enumerate(wp["sends"]):
            await self.conc_send(who, i, ("send_" + kind, data), dl)
        for j, (code, dl) in enumerate(wp["closes"]):
            await self.conc_close(who, 100 + j, code, dl)

    # -- global monitors -----------------------------------------------------------------------
    def finish(self, pending):
        peer, plan = self.peer, self.plan
        types = self.fwd_types()
        hist = "forwarded %r" % ([(t, w, r) for t, w, r in peer.sent],)
        if not grammar_ok(types):
            self.violate("grammar", bad_prefix(types), "forwarded event types %r do not match close | accept send* close?; %s" % (types, hist))
        if peer.closes_forwarded() > 1:
            self.violate("close-forwarded-twice", "global", "%d websocket.close events forwarded; %s" % (peer.closes_forwarded(), hist))
        if peer.recv_after_disc:
            self.violate("receive-after-disconnect", "global", "%d receive() call(s) reached the server after it had delivered websocket.disconnect; delivered %r"
                         % (peer.recv_after_disc, [self.script[j]["type"] for j in peer.delivered_idx]))
        if pending:
            self.violate("hang", "pending", "%s still pending after %.0f virtual seconds; delivered %d of %d server messages; forwarded %r"
                         % (sorted(pending), WAIT, len(peer.delivered_idx), len(self.script), types))
        if self.strict:
            frames = [v for _, v in plan["frames"]]
            if self.returned != frames[:len(self.returned)]:
                self.violate("frames-not-in-order-exactly-once", "returned", "returned to the application %r, script frames %r" % (self.returned, frames))
            elif not pending and peer.frames_delivered != len(self.returned):
                self.violate("frames-not-in-order-exactly-once", "lost", "the server delivered %d frames, the application was handed %d: %r"
                             % (peer.frames_delivered, len(self.returned), self.returned))

    async def teardown(self):
        for g in self.keep:
            try:
                await g.aclose()
            except BaseException:  # noqa
                pass


class C11(Prop):
    id = "C11"
    level = "exploration"
    title = "The WebSocket wrapper only forwards protocol-legal event sequences"
    rule = ("one run = one server script (websocket.connect, 0..4 uniquely valued text/bytes frames, websocket.disconnect(code) - "
            "i.e. the disconnect at every position -, per-message arrival latencies, optional 'server send() raises from the n-th "
            "call on' fault) x one application history: either a single call sequence of 1..8 calls over accept / receive / "
            "receive_text / receive_bytes / iter_text / iter_bytes (m steps) / send_text / send_bytes / raw send (accept, send, "
            "close, unknown types) / close (once, twice), or accept followed by a concurrent reader task and writer task with seeded "
            "sleeps, or a receive-side task (accept, iterator whose loop body also calls receive()) racing with a send-side task (close / "
            "send / raw close) that may act before, during or after accept(); non-trivial = two tasks interleaved or a fault/latency fired; distinct = distinct SHA-1 of the scheduling-event "
            "sequence (which task called what / which message was delivered or forwarded at which virtual instant)")
    assumptions = ("SimLoop keeps asyncio's FIFO call_soon order; only timer ties and external latencies are permuted",
                   "the server always delivers websocket.connect first and always ends with websocket.disconnect; a receive() issued "
                   "after that is answered with another disconnect (and counted) instead of parking forever",
                   "every event handed to the server's send() counts as forwarded, also when that send() then raises",
                   "accept() is expected to consume the connect event (typed receives can only return frames if it did)",
                   "calls the statement does not classify (typed receive while the application side is not connected, sends after the "
                   "client's disconnect was delivered, typed receive meeting a frame of the other type or the connect event) are "
                   "accepted either way; only the forwarding grammar, state monotonicity and a clean raise are demanded of them",
                   "partial async-for consumers keep their generator alive until the end of the run (no GC-time finalisation)")
    components = {"real": ["baize.asgi.websocket.WebSocket / WebSocketDisconnect / WebSocketState", "baize.asgi.requests.HTTPConnection",
                           "asyncio tasks / async generators (CPython)"],
                  "stub": ["event-loop selector/clock (SimLoop)", "ASGI WebSocket server receive()/send() (sim.models.ws.WsPeer)"]}
    hard_probes = ("variant_seq", "variant_conc", "variant_race", "mismatch_batch", "typed_mismatch", "illegal_call", "unspecified_call", "close_twice",
                   "iter_partial", "call_after_disconnect", "disconnect_delivered", "send_raises", "recv_waited", "send_latency")
    quick_runs = 200000
    thorough_runs = 2000000
    batch = 1000

    # -- plan ----------------------------------------------------------------------------------
    def gen_plan(self, t):
        variant = t.weighted([(6, "seq"), (2, "conc"), (1, "race")])
        k = t.draw(5)
        frames = []
        for i in range(k):
            if t.draw(2) == 0:
                frames.append(("text", "t%d" % i))
            else:
                frames.append(("bytes", b"b%d" % i))
        plan = {"variant": variant, "code": t.choice(CODES), "reason": t.choice([None, None, "bye"]),
                "both_keys": t.draw(3) == 2, "delays": [t.choice(MSG_DELAYS) for _ in range(k + 2)],
                "fail_from": (1 + t.draw(4)) if t.draw(6) == 5 else None, "mismatch": False}
        if variant == "seq":
            plan["mismatch"] = t.draw(8) == 7
            plan["ops"] = gen_ops(t)
            plan["via_session"] = t.choice([None, None, None, "returns", "raises", "raises-http"])
            # fault: the application gives up on a first accept() (wait_for timeout) while the handshake event is still on its way -
            # the call is cancelled at its await; afterwards the history goes on as if it had never been made
            if t.draw(8) == 0:
                plan["cancelled_accept"] = True
                plan["delays"][0] = 5.0
        elif variant == "race":
            # a receive-side task (accept, then an iterator whose loop body also calls receive(), or typed receives) races with a
            # send-side task (close / send / raw close) that may act before, during or after accept(); judged by the global
            # monitors only (grammar, monotone states, no receive after disconnect, close once, no hang)
            frames = [("text", "t%d" % i) for i in range(k)]
            plan["mismatch"] = True        # per-call model and frame accounting are off: only the global monitors judge
            plan["recv_side"] = {"accept_delay": t.choice(OP_DELAYS), "style": t.choice(["iter+receive", "iter+receive", "typed", "iter"]),
                                 "body_receive_every": 1 + t.draw(2), "delays": [t.choice(OP_DELAYS) for _ in range(3)]}
            plan["send_side"] = [(t.choice([("close", None), ("close", 1001), ("send_text", "w"), ("raw", {"type": "websocket.close"}), ("close", None)]), t.choice(OP_DELAYS))
                                 for _ in range(1 + t.draw(3))]
        else:
            style = t.weighted([(2, "typed"), (2, "raw"), (2, "iter")])
            if style == "iter":
                kind = t.choice(["text", "bytes"])
                frames = [("text", "t%d" % i) if kind == "text" else ("bytes", b"b%d" % i) for i in range(k)]
                style = "iter_" + kind
            plan["sub"] = t.choice([None, "chat"])
            plan["reader"] = {"style": style, "pref": t.choice(["text", "bytes"]),
                              "delays": [t.choice(OP_DELAYS) for _ in range(3)],
                              "closes": [(t.choice(CLOSE_CODES), t.choice(OP_DELAYS)) for _ in range(t.weighted([(2, 0), (2, 1), (1, 2)]))]}
            ns = t.draw(4)
            plan["writer"] = {"sends": [(t.choice(["text", "bytes"]), None, t.choice(OP_DELAYS)) for _ in range(ns)],
                              "closes": [(t.choice(CLOSE_CODES), t.choice(OP_DELAYS)) for _ in range(t.weighted([(3, 1), (2, 2), (1, 0)]))]}
            plan["writer"]["sends"] = [(kd, ("w%d" % i) if kd == "text" else b"w%d" % i, dl) for i, (kd, _, dl) in enumerate(plan["writer"]["sends"])]
        if frames and not plan.get("mismatch") and t.draw(5) == 0:
            # a zero-length frame is a frame (keep-alives, empty chat lines): one per script, so values stay unique
            i = t.draw(len(frames))
            frames = list(frames)
            frames[i] = (frames[i][0], "" if frames[i][0] == "text" else b"")
        plan["frames"] = frames
        return plan

    def describe(self, plan, variant=None):
        return jsonable(plan)

    # -- execute -------------------------------------------------------------------------------
    def execute(self, plan, ctx, variant=None):
        surf = plan["variant"] if not plan["mismatch"] else "seq-mismatch"
        if plan["variant"] == "seq":
            ctx.actors = 1
            ctx.probe("variant_seq")
            if plan["mismatch"]:
                ctx.probe("mismatch_batch")
        elif plan["variant"] == "race":
            surf = "race"
            ctx.actors = 2
            ctx.probe("variant_race")
        else:
            ctx.actors = 2
            ctx.probe("variant_conc")

        async def scenario(loop):
            run = _Run(plan, ctx, loop, surf)

            async def cancelled_prelude():
                if not plan.get("cancelled_accept"):
                    return
                ctx.fault("call_cancelled_at_its_await")
                peer = run.peer
                n_sent, n_del = len(peer.sent), len(peer.delivered_idx)
                try:
                    await asyncio.wait_for(run.ws.accept(), 1.0)
                    run.violate("cancelled-call", "accept-returned", "accept() returned although websocket.connect had not arrived yet")
                except asyncio.TimeoutError:
                    pass
                except Exception as e:  # noqa
                    run.violate("cancelled-call", "raised-%s" % type(e).__name__, repr(e))
                if len(peer.sent) != n_sent or len(peer.delivered_idx) != n_del:
                    run.violate("cancelled-call", "had-effects", "a call cancelled before the server had delivered anything forwarded %r / took %d events"
                                % ([r for _, _, r in peer.sent[n_sent:]], len(peer.delivered_idx) - n_del))
                run.sample("after cancelled accept")
            if plan["variant"] == "race":
                ok_exc = ("RuntimeError", "AssertionError", "WebSocketDisconnect", "KeyError", "ClientGone")

                def note(who, i, name, out):
                    run.log_out(who, i, name, out)
                    run.sample("%s step %d" % (who, i))
                    if out[0] == "exc" and out[1] not in ok_exc:
                        run.violate("unexpected-exception", "%s|%s" % (name, out[1]), repr(out[2]))

                async def recv_side():
                    rp = plan["recv_side"]
                    if rp["accept_delay"]:
                        await asyncio.sleep(rp["accept_delay"])
                    out = await run.invoke(("accept", None))
                    note("reader", 0, "accept", out)
                    if out[0] != "ok":
                        return
                    if rp["style"] == "typed":
                        for i in range(8):
                            out = await run.invoke(("receive_text",))
                            note("reader", 1 + i, "receive_text", out)
                            if out[0] != "ok":
                                return
                        return
                    g = run.ws.iter_text()
                    run.keep.append(g)
                    n = 0
                    try:
                        async for _x in g:
                            n += 1
                            ctx.sch("iter-item", n)
                            if rp["style"] == "iter+receive" and n % rp["body_receive_every"] == 0:
                                # the loop body reads the channel itself: it may be handed the disconnect
                                out = await run.invoke(("receive",))
                                note("reader", 100 + n, "receive", out)
                            d = rp["delays"][n % len(rp["delays"])]
                            if d:
                                await asyncio.sleep(d)
                            if n > 12:
                                break
                        note("reader", 200, "iter_text", ("ok", n))
                    except asyncio.CancelledError:
                        raise
                    except Exception as e:  # noqa
                        note("reader", 200, "iter_text", ("exc", type(e).__name__, e))

                async def send_side():
                    for i, (op, dl) in enumerate(plan["send_side"]):
                        if dl:
                            await asyncio.sleep(dl)
                        out = await run.invoke(op)
                        note("writer", i, op[0], out)

                tasks = [loop.create_task(recv_side(), name="reader"), loop.create_task(send_side(), name="writer")]
            elif plan["variant"] == "seq" and plan.get("via_session"):
                # the documented entry point: the wrapper is created by websocket_session() and handed to the view, which may blow up
                from baize.asgi import websocket_session
                ctx.probe("via_websocket_session")

                class ViewFailure(Exception):
                    pass

                async def view(ws):
                    run.ws = ws
                    await cancelled_prelude()
                    for i, (op, dl) in enumerate(plan["ops"]):
                        await run.step("main", i, op, dl)
                    if plan["via_session"] == "raises":
                        ctx.fault("view_raises")
                        raise ViewFailure("the view failed after its last call")
                    if plan["via_session"] == "raises-http":
                        from baize.exceptions import HTTPException
                        ctx.fault("view_raises")
                        raise HTTPException(400)

                async def prog():
                    from baize.exceptions import HTTPException
                    try:
                        await websocket_session(view)(run.peer.scope, run.peer.receive, run.peer.send)
                    except (ViewFailure, HTTPException):
                        pass
                tasks = [loop.create_task(prog(), name="main")]
            elif plan["variant"] == "seq":
                async def prog():
                    await cancelled_prelude()
                    for i, (op, dl) in enumerate(plan["ops"]):
                        await run.step("main", i, op, dl)
                tasks = [loop.create_task(prog(), name="main")]
            else:
                async def prog():
                    await run.step("main", 0, ("accept", plan["sub"]))
                    r = loop.create_task(run.reader(plan["reader"]), name="reader")
                    w = loop.create_task(run.writer(plan["writer"]), name="writer")
                    await asyncio.wait([r, w])
                    for tk in (r, w):
                        if tk.exception() is not None:
                            raise tk.exception()
                tasks = [loop.create_task(prog(), name="main")]
            done, pend = await asyncio.wait(tasks, timeout=WAIT)
            pending = []
            if pend:
                pending = sorted(tk.get_name() for tk in asyncio.all_tasks(loop) if not tk.done() and tk.get_name() in ("main", "reader", "writer"))
                if plan["variant"] == "conc" and "main" in pending and len(pending) > 1:
                    pending.remove("main")
            run.sample("end")
            run.finish(pending)            # snapshot and judge before any teardown
            if pend:
                for tk in list(asyncio.all_tasks(loop)):
                    if not tk.done() and tk.get_name() in ("main", "reader", "writer"):
                        tk.cancel()
                await asyncio.wait(pend, timeout=10.0)
            await run.teardown()
            for tk in done:
                if not tk.cancelled() and tk.exception() is not None:
                    raise tk.exception()   # a bug in the harness itself -> HARNESS-ERROR, never a finding
            return run

        try:
            run, loop = run_sim(scenario, ctx.sched, ctx, vcap=5000.0, step_cap=100000)
        except (SimDeadlock, SimTimeLimit, SimStepLimit) as e:
            ctx.violate("C11|%s|hang|%s" % (surf, type(e).__name__), "the application side never finished: %s" % e)
            return
        if loop.errors:
            ctx.ev("loop-errors", tuple(loop.errors[:3]))


PROP = C11
