"""Run context, property base class and single-run execution."""
import gc
import hashlib
import random
import re
import traceback
from collections import Counter

from .tape import Tape, mix


_ADDR = re.compile(r" at 0x[0-9a-fA-F]+")


def scrub(text):
    """Memory addresses in reprs (e.g. '<object object at 0x7f..>') are not part of a run's identity."""
    return _ADDR.sub(" at 0x?", text)


class HarnessError(Exception):
    """The simulator itself misbehaved (never reported as a VIOLATION)."""


class Ctx:
    """Everything one simulated run records."""

    def __init__(self, sched, workdir=None):
        self.sched = sched
        self.workdir = workdir
        self.log = []          # full event log -> determinism digest
        self.sched_log = []    # scheduling decisions only -> interleaving digest
        self.faults = Counter()
        self.probes = Counter()
        self.violations = []   # (key, detail)
        self.monitor_trips = []  # protocol monitor trips (only C05 turns them into violations)
        self.sim_time = 0.0
        self.actors = 0
        self.notes = {}

    def ev(self, *a):
        self.log.append(a)

    def sch(self, *a):
        self.sched_log.append(a)
        self.log.append(a)

    def fault(self, kind, n=1):
        self.faults[kind] += n

    def probe(self, name, n=1):
        self.probes[name] += n

    def violate(self, key, detail=""):
        d = scrub(detail if isinstance(detail, str) else repr(detail))
        if len(d) > 1500:
            d = d[:1500] + "...[cut]"
        self.violations.append((key.replace(" ", "_"), d))

    def trip(self, key, detail=""):
        self.monitor_trips.append((key, detail if isinstance(detail, str) else repr(detail)))

    def digest(self):
        return hashlib.sha1(scrub(repr((self.log, self.violations, sorted(self.faults.items())))).encode("utf-8", "backslashreplace")).hexdigest()

    def interleaving(self):
        return hashlib.sha1(scrub(repr(self.sched_log)).encode("utf-8", "backslashreplace")).hexdigest()[:16]


class Prop:
    """Base class of a property check."""

    id = "C00"
    level = "exploration"
    title = ""
    rule = ""
    assumptions = ()
    components = {"real": [], "stub": []}
    hard_probes = ()       # probes of harness-controlled conditions: 0 in a quick run => exit 3
    quick_runs = 20000
    thorough_runs = 200000
    quick_wall = 45.0
    thorough_wall = 540.0
    batch = 200

    def setup(self, workdir):
        """Called once per worker process."""
        self.workdir = workdir

    def gen_plan(self, t):
        raise NotImplementedError

    def variants(self, plan, ctx0):
        """Extra executions of the same plan (e.g. one per fault point)."""
        return []

    def execute(self, plan, ctx, variant=None):
        raise NotImplementedError

    def describe(self, plan, variant=None):
        return {"plan": jsonable(plan), "variant": jsonable(variant)}

    def nontrivial(self, plan, ctx, variant):
        return bool(ctx.faults) or ctx.actors >= 2


def jsonable(x, depth=0):
    if depth > 12:
        return "..."
    if isinstance(x, (bytes, bytearray)):
        s = bytes(x)
        if len(s) > 200:
            return {"bytes_len": len(s), "head": s[:80].decode("latin-1"), "tail": s[-40:].decode("latin-1")}
        return {"bytes": s.decode("latin-1")}
    if isinstance(x, dict):
        return {str(k): jsonable(v, depth + 1) for k, v in x.items()}
    if isinstance(x, (list, tuple)):
        if len(x) > 60:
            return [jsonable(v, depth + 1) for v in x[:50]] + ["...(%d more)" % (len(x) - 50)]
        return [jsonable(v, depth + 1) for v in x]
    if isinstance(x, str):
        return x if len(x) <= 400 else x[:300] + "...(%d chars)" % len(x)
    if isinstance(x, (int, float, bool)) or x is None:
        return x
    return repr(x)


_CACHES = {"mods": None, "objs": []}


def reset_library_caches():
    """A run must not depend on what earlier runs of the same worker left in memoisation caches of the
    library under test (functools.lru_cache / cache at module or class level): clear them before each run."""
    import sys
    mods = tuple(sorted(m for m in sys.modules if m == "baize" or m.startswith("baize.")))
    if mods != _CACHES["mods"]:
        objs = []
        for m in mods:
            mod = sys.modules.get(m)
            for v in list(getattr(mod, "__dict__", {}).values()):
                if callable(getattr(v, "cache_clear", None)):
                    objs.append(v)
                elif isinstance(v, type):
                    for w in list(vars(v).values()):
                        w = getattr(w, "__func__", w)
                        if callable(getattr(w, "cache_clear", None)):
                            objs.append(w)
        _CACHES["mods"], _CACHES["objs"] = mods, objs
    for o in _CACHES["objs"]:
        try:
            o.cache_clear()
        except Exception:
            pass


class RunTimeout(BaseException):
    """One simulated run used more real time than RUN_BUDGET seconds (normal runs take milliseconds)."""


RUN_BUDGET = 20.0


def _on_alarm(signum, frame):
    raise RunTimeout()


def execute_once(prop, plan, sched, variant, workdir):
    """One execution; returns the filled Ctx. Harness exceptions become HarnessError."""
    import signal
    import threading
    reset_library_caches()
    ctx = Ctx(sched, workdir)
    random.seed(mix("global-random", sched.seed))
    was = gc.isenabled()
    gc.disable()
    armed = threading.current_thread() is threading.main_thread()
    if armed:
        old = signal.signal(signal.SIGALRM, _on_alarm)
        signal.setitimer(signal.ITIMER_REAL, RUN_BUDGET)
    try:
        prop.execute(plan, ctx, variant)
    except HarnessError:
        raise
    except RunTimeout:
        # virtual-time and step caps bound everything the simulator schedules; what is left is the code under test
        # spinning or blowing up inside one call (exponential work, endless loop): report it, it replays the same way
        ctx.violate("%s|run-exceeded-real-time-budget" % prop.id,
                    "one simulated run did not finish within %.0f s of real time (ordinary runs take milliseconds): the code under test loops or does explosive work in a single call" % RUN_BUDGET)
    except MemoryError:
        ctx.violate("%s|run-exhausted-memory" % prop.id, "the code under test exhausted the worker's address-space limit inside one simulated run")
    except BaseException as e:  # an exception escaping execute is a harness bug, not a finding
        raise HarnessError("%s escaped %s.execute: %r\n%s" % (type(e).__name__, prop.id, e, traceback.format_exc())) from e
    finally:
        if armed:
            signal.setitimer(signal.ITIMER_REAL, 0)
            signal.signal(signal.SIGALRM, old)
        if was:
            gc.enable()
    return ctx


def run_seed(prop, seed, workdir, plan_choices=None, sched_choices=None, only_variant="__all__"):
    """Run one seed (base run + its variants). Yields (variant, plan, ctx, plan_tape, sched_tape)."""
    ptape = Tape(mix(seed, "plan"), replay=plan_choices)
    plan = prop.gen_plan(ptape)
    out = []

    def one(variant):
        st = Tape(mix(seed, "sched"), replay=sched_choices)
        ctx = execute_once(prop, plan, st, variant, workdir)
        out.append((variant, plan, ctx, ptape, st))
        return ctx

    if only_variant == "__all__":
        ctx0 = one(None)
        for v in prop.variants(plan, ctx0):
            one(v)
    else:
        one(only_variant)
    return out
