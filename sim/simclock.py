"""SimClock: the virtual wall clock and the process-time-zone seam (DESIGN 2.6).

* ``SimClock`` is a wall clock that only moves when the scenario moves it
  (``jump``) or, when attached to a SimLoop, when the loop's virtual time moves.
  It lives on a microsecond grid (what ``datetime`` can represent), so the
  expected "whole second" of an instant is unambiguous.
* ``installed(clock, zone)`` makes ``baize.responses`` read that clock (its
  module globals ``time`` and ``datetime`` are replaced by delegating stubs - no
  change in /repo, nothing global is patched) and switches the *process* time
  zone (``os.environ['TZ']`` + ``time.tzset()``), which is what
  ``datetime.fromtimestamp(x)`` / ``time.localtime`` consult.  Everything is
  restored in a ``finally`` so later runs in the same worker are unaffected.
* zone arithmetic for oracles (``utcoffset``, ``is_dst``, ``next_transition``)
  goes through ``zoneinfo`` and never through the process TZ, so an oracle can
  not inherit a mistake from the seam it is judging.
"""
import bisect
import datetime as _dt
import os
import time as _time
import zoneinfo
from contextlib import contextmanager

from .core import HarnessError

ZONES = ("UTC", "Asia/Shanghai", "America/New_York", "Europe/London", "Asia/Kolkata",
         "Pacific/Kiritimati", "Pacific/Pago_Pago")

_ZI = {}
_TRANS = {}
_SCAN_LO = 1735689600   # 2025-01-01T00:00:00Z
_SCAN_HI = 1893456000   # 2030-01-01T00:00:00Z


def _zi(zone):
    z = _ZI.get(zone)
    if z is None:
        z = _ZI[zone] = zoneinfo.ZoneInfo(zone)
    return z


def utcoffset(zone, t):
    """Seconds east of UTC that ``zone`` observes at POSIX instant ``t``."""
    return int(_dt.datetime.fromtimestamp(int(t), _zi(zone)).utcoffset().total_seconds())


def is_dst(zone, t):
    d = _dt.datetime.fromtimestamp(int(t), _zi(zone)).dst()
    return bool(d) and d.total_seconds() != 0


def transitions(zone):
    """Sorted instants in [2025, 2030) at which the UTC offset of ``zone`` changes
    (the value is the first second that has the new offset)."""
    tr = _TRANS.get(zone)
    if tr is not None:
        return tr
    tr = []
    t = _SCAN_LO
    off = utcoffset(zone, t)
    while t < _SCAN_HI:
        n = t + 86400
        noff = utcoffset(zone, n)
        if noff != off:
            lo, hi = t, n           # offset(lo) == off, offset(hi) == noff
            while hi - lo > 1:
                mid = (lo + hi) // 2
                if utcoffset(zone, mid) == off:
                    lo = mid
                else:
                    hi = mid
            tr.append(hi)
            off = noff
        t = n
    _TRANS[zone] = tr
    return tr


def next_transition(zone, t):
    tr = transitions(zone)
    i = bisect.bisect_right(tr, t)
    return tr[i] if i < len(tr) else None


def crosses_transition(zone, a, b):
    """True iff the UTC offset of ``zone`` changes somewhere in (min(a,b), max(a,b)]."""
    lo, hi = (a, b) if a <= b else (b, a)
    tr = transitions(zone)
    i = bisect.bisect_right(tr, lo)
    return i < len(tr) and tr[i] <= hi


class SimClock:
    def __init__(self, start):
        self.base = float(start)
        self.loop = None
        self.reads = 0

    def attach(self, loop):
        """From now on the wall clock also advances with the loop's virtual time."""
        self.base -= loop.time()
        self.loop = loop

    def detach(self):
        if self.loop is not None:
            self.base += self.loop.time()
            self.loop = None

    def peek(self):
        t = self.base if self.loop is None else self.base + self.loop.time()
        return round(t, 6)

    def time(self):
        self.reads += 1
        return self.peek()

    def jump(self, delta):
        self.base += delta

    def jump_to(self, t):
        self.base += t - self.peek()


_CURRENT = [None]


class _VDateTime(_dt.datetime):
    """datetime whose notion of 'now' is the virtual clock (fromtimestamp etc. untouched)."""

    @classmethod
    def now(cls, tz=None):
        return cls.fromtimestamp(_CURRENT[0].time(), tz)

    @classmethod
    def utcnow(cls):
        return cls.fromtimestamp(_CURRENT[0].time(), _dt.timezone.utc).replace(tzinfo=None)

    @classmethod
    def today(cls):
        return cls.fromtimestamp(_CURRENT[0].time())


class _VDate(_dt.date):
    @classmethod
    def today(cls):
        return cls.fromtimestamp(_CURRENT[0].time())


class _TimeStub:
    """Stands in for the ``time`` module inside baize.responses."""

    def __init__(self, clock):
        self._clock = clock

    def time(self):
        return self._clock.time()

    def time_ns(self):
        return int(round(self._clock.time() * 1e6)) * 1000

    def __getattr__(self, name):
        return getattr(_time, name)


class _DatetimeStub:
    """Stands in for the ``datetime`` module inside baize.responses."""
    datetime = _VDateTime
    date = _VDate

    def __getattr__(self, name):
        return getattr(_dt, name)


def _set_tz(zone):
    if zone is None:
        os.environ.pop("TZ", None)
    else:
        os.environ["TZ"] = zone
    _time.tzset()


@contextmanager
def installed(clock, zone):
    """Virtual clock + process time zone for the duration of one run."""
    import baize.responses as br
    old_time, old_dt = br.time, br.datetime
    old_tz = os.environ.get("TZ")
    old_cur = _CURRENT[0]
    try:
        _set_tz(zone)
        _CURRENT[0] = clock
        br.time = _TimeStub(clock)
        br.datetime = _DatetimeStub()
        # the seam must really be in place, otherwise every verdict below is about the wrong clock/zone
        probe = clock.peek()
        if br.time.time() != probe:
            raise HarnessError("time seam not effective in baize.responses")
        clock.reads -= 1
        if _time.localtime(int(probe)).tm_gmtoff != utcoffset(zone, probe):
            raise HarnessError("process time zone %r not effective (tzset gives %r, zoneinfo %r)"
                               % (zone, _time.localtime(int(probe)).tm_gmtoff, utcoffset(zone, probe)))
        yield
    finally:
        br.time, br.datetime = old_time, old_dt
        _CURRENT[0] = old_cur
        _set_tz(old_tz)
