"""Tape: the single source of every decision in a simulated run.

``Tape(seed)`` draws from ``random.Random(seed)`` and records every value.
``Tape(replay=[...])`` replays a recorded choice sequence positionally; when the
list is exhausted (or a value no longer fits the range after a structural
shrink) the draw is 0 - always the *simplest* choice by convention - and the
tape is flagged ``desynced``.  Nothing here reads a clock.
"""
import hashlib
import random


def mix(*parts):
    """Derive a 63-bit integer from arbitrary parts, independent of PYTHONHASHSEED."""
    h = hashlib.sha256(repr(parts).encode()).digest()
    return int.from_bytes(h[:8], "big") >> 1


class Tape:
    __slots__ = ("rng", "replay", "pos", "record", "desynced", "seed")

    def __init__(self, seed=None, replay=None):
        self.seed = seed
        self.replay = None if replay is None else list(replay)
        self.rng = random.Random(seed) if replay is None else None
        self.pos = 0
        self.record = []
        self.desynced = False

    # -- primitive ---------------------------------------------------------
    def draw(self, n):
        """Integer in [0, n). 0 is the simplest choice."""
        if n <= 1:
            return 0
        if self.replay is None:
            v = self.rng.randrange(n)
        else:
            if self.pos < len(self.replay):
                v = self.replay[self.pos]
                if not (0 <= v < n):
                    v = 0
                    self.desynced = True
            else:
                v = 0
                self.desynced = True
            self.pos += 1
        self.record.append(v)
        return v

    # -- helpers (all built on draw) ---------------------------------------
    def choice(self, seq):
        return seq[self.draw(len(seq))]

    def chance(self, num, den):
        """True with probability num/den; False (0) is the simple outcome."""
        return self.draw(den) >= den - num

    def weighted(self, pairs):
        """pairs: [(weight, value), ...]; the first pair is the simplest."""
        total = sum(w for w, _ in pairs)
        v = self.draw(total)
        for w, val in pairs:
            if v < w:
                return val
            v -= w
        return pairs[-1][1]

    def int_between(self, lo, hi):
        return lo + self.draw(hi - lo + 1)

    def bytes_of(self, n, alphabet=None):
        if alphabet is None:
            return bytes(self.draw(256) for _ in range(n))
        return bytes(alphabet[self.draw(len(alphabet))] for _ in range(n))

    def sublist(self, seq, max_len=None):
        k = self.draw((len(seq) if max_len is None else min(max_len, len(seq))) + 1)
        out = list(seq)
        res = []
        for _ in range(k):
            res.append(out.pop(self.draw(len(out))))
        return res


def shrink_choices(choices, still_fails, budget):
    """Generic choice-sequence minimiser (delete spans, zero, lower values).

    ``still_fails(list) -> bool`` re-executes; ``budget`` is an object with
    ``.spend()`` returning False when exhausted.
    """
    best = list(choices)

    def attempt(cand):
        if cand == best:
            return False
        if not budget.spend():
            return False
        return still_fails(cand)

    # strip trailing zeros: replay pads with 0 anyway
    while best and best[-1] == 0:
        best.pop()
    improved = True
    while improved and budget.left():
        improved = False
        # truncate
        n = len(best)
        cut = n // 2
        while cut >= 1 and budget.left():
            cand = best[: n - cut]
            if attempt(cand):
                best = cand
                while best and best[-1] == 0:
                    best.pop()
                improved = True
                n = len(best)
                cut = min(cut, n // 2) if n else 0
            else:
                cut //= 2
        # delete spans
        size = 8
        while size >= 1 and budget.left():
            i = 0
            while i + size <= len(best) and budget.left():
                cand = best[:i] + best[i + size:]
                if attempt(cand):
                    best = cand
                    improved = True
                else:
                    i += 1 if size == 1 else size
            size //= 2
        # zero spans then single values
        size = 8
        while size >= 1 and budget.left():
            i = 0
            while i < len(best) and budget.left():
                if any(best[i:i + size]):
                    cand = best[:i] + [0] * len(best[i:i + size]) + best[i + size:]
                    if attempt(cand):
                        best = cand
                        improved = True
                i += size
            size //= 2
        # lower values
        for i in range(len(best)):
            if not budget.left():
                break
            v = best[i]
            while v > 0 and budget.left():
                for nv in (v // 2, v - 1):
                    if nv < v:
                        cand = best[:i] + [nv] + best[i + 1:]
                        if attempt(cand):
                            best = cand
                            v = nv
                            improved = True
                            break
                else:
                    break
        while best and best[-1] == 0:
            best.pop()
    return best


class Budget:
    def __init__(self, n, deadline=None, clock=None):
        self.n = n
        self.deadline = deadline
        self.clock = clock

    def left(self):
        if self.n <= 0:
            return False
        if self.deadline is not None and self.clock() > self.deadline:
            return False
        return True

    def spend(self):
        if not self.left():
            return False
        self.n -= 1
        return True
