"""SimFS: file contents are real files below a per-worker temp root; metadata time is virtual.

* os.stat / os.lstat / os.fstat-free overlay: for paths below the sim root with recorded
  metadata the returned os.stat_result carries the virtual st_mtime/st_ctime (size and
  mode stay real);
* optional I/O faults for paths / descriptors below the root: os.open, os.read, os.lseek,
  builtins-level open() (installed as a module attribute of the modules under test) fail
  with OSError at a planned call index;
* a virtual wall clock (SimClock) that other seams read.
"""
import builtins
import errno
import os
import shutil

_real_stat = os.stat
_real_open = os.open
_real_read = os.read
_real_lseek = os.lseek
_real_close = os.close
_real_builtin_open = builtins.open

CURRENT = None    # the SimFS of this worker process


class InjectedIOError(OSError):
    pass


class InjectedVanish(FileNotFoundError):
    """The file was removed between stat() and open()."""


class SimFS:
    def __init__(self, root):
        self.root = os.path.realpath(root)
        os.makedirs(self.root, exist_ok=True)
        self.meta = {}       # abs path -> (mtime, ctime)
        self.now = 1_000_000_000.0
        self.fault_plan = {}  # kind -> call index (1-based) at which to fail
        self.fault_flavour = "eio"
        self.calls = {}
        self.fds = set()
        self.ctx = None
        self.stat_calls = 0

    # -- content ---------------------------------------------------------------------
    def reset(self):
        for name in os.listdir(self.root):
            p = os.path.join(self.root, name)
            if os.path.isdir(p) and not os.path.islink(p):
                shutil.rmtree(p, ignore_errors=True)
            else:
                try:
                    os.unlink(p)
                except OSError:
                    pass
        self.meta.clear()
        self.fault_plan = {}
        self.calls = {}
        for fd in list(self.fds):
            try:
                _real_close(fd)
            except OSError:
                pass
        self.fds.clear()
        self.ctx = None

    def path(self, rel):
        return os.path.join(self.root, rel)

    def write(self, rel, data, mtime=None, ctime=None):
        p = self.path(rel)
        os.makedirs(os.path.dirname(p), exist_ok=True)
        with _real_builtin_open(p, "wb") as f:
            f.write(data)
        mt = self.now if mtime is None else mtime
        ct = self.now if ctime is None else ctime
        self.meta[p] = (mt, ct)
        return p

    def mkdir(self, rel):
        p = self.path(rel)
        os.makedirs(p, exist_ok=True)
        return p

    def set_times(self, rel, mtime=None, ctime=None):
        p = self.path(rel)
        mt, ct = self.meta.get(p, (self.now, self.now))
        self.meta[p] = (mt if mtime is None else mtime, ct if ctime is None else ctime)

    def inside(self, path):
        try:
            p = os.fspath(path)
        except TypeError:
            return False
        if isinstance(p, bytes):
            p = os.fsdecode(p)
        return isinstance(p, str) and (p == self.root or p.startswith(self.root + os.sep))

    # -- faults ----------------------------------------------------------------------
    def _maybe_fail(self, kind):
        n = self.calls[kind] = self.calls.get(kind, 0) + 1
        if self.fault_plan.get(kind) == n:
            if self.ctx is not None:
                self.ctx.fault("io_error_" + kind)
            if self.fault_flavour == "enoent":
                raise InjectedVanish(errno.ENOENT, "injected: file vanished before %s call %d" % (kind, n))
            raise InjectedIOError(errno.EIO, "injected %s failure at call %d" % (kind, n))


def _stat(path, *a, **k):
    st = _real_stat(path, *a, **k)
    fs = CURRENT
    if fs is None or isinstance(path, int):
        return st
    try:
        p = os.fspath(path)
    except TypeError:
        return st
    m = fs.meta.get(p) if isinstance(p, str) else None
    if m is None and isinstance(p, str) and fs.inside(p):
        m = fs.meta.get(os.path.abspath(p))
        if m is None and k.get("follow_symlinks", True):
            m = fs.meta.get(os.path.realpath(p))          # a symbolic link inside the tree: the target's (virtual) times
    if m is None:
        return st
    fs.stat_calls += 1
    mt, ct = m
    lst = list(st)
    lst[8] = int(mt)
    lst[9] = int(ct)
    ext = {"st_atime": st.st_atime, "st_mtime": mt, "st_ctime": ct, "st_atime_ns": st.st_atime_ns,
           "st_mtime_ns": int(round(mt * 1e9)), "st_ctime_ns": int(round(ct * 1e9)),
           "st_blksize": st.st_blksize, "st_blocks": st.st_blocks, "st_rdev": st.st_rdev}
    return os.stat_result(tuple(lst), ext)


def _os_open(path, flags, mode=0o777, *, dir_fd=None):
    fs = CURRENT
    if fs is not None and fs.inside(path):
        fs._maybe_fail("os_open")
        fd = _real_open(path, flags, mode) if dir_fd is None else _real_open(path, flags, mode, dir_fd=dir_fd)
        fs.fds.add(fd)
        return fd
    return _real_open(path, flags, mode) if dir_fd is None else _real_open(path, flags, mode, dir_fd=dir_fd)


def _os_read(fd, n):
    fs = CURRENT
    if fs is not None and fd in fs.fds:
        fs._maybe_fail("os_read")
    return _real_read(fd, n)


def _os_lseek(fd, pos, how):
    fs = CURRENT
    if fs is not None and fd in fs.fds:
        fs._maybe_fail("os_lseek")
    return _real_lseek(fd, pos, how)


def _os_close(fd):
    fs = CURRENT
    if fs is not None:
        fs.fds.discard(fd)
    return _real_close(fd)


class _FaultyFile:
    """Wraps a real binary file object; read() may fail at the planned call index."""

    def __init__(self, f, fs):
        self._f = f
        self._fs = fs

    def read(self, *a):
        self._fs._maybe_fail("file_read")
        return self._f.read(*a)

    def __getattr__(self, name):
        return getattr(self._f, name)

    def __enter__(self):
        self._f.__enter__()
        return self

    def __exit__(self, *a):
        return self._f.__exit__(*a)

    def __iter__(self):
        return iter(self._f)


def _open(file, mode="r", *a, **k):
    fs = CURRENT
    if fs is not None and not isinstance(file, int) and fs.inside(file) and "b" in mode and "r" in mode:
        fs._maybe_fail("file_open")
        return _FaultyFile(_real_builtin_open(file, mode, *a, **k), fs)
    return _real_builtin_open(file, mode, *a, **k)


_installed = False


def install(root):
    """Create the worker's SimFS and install the seams (idempotent)."""
    global CURRENT, _installed
    if CURRENT is not None:
        for fd in list(CURRENT.fds):
            try:
                _real_close(fd)
            except OSError:
                pass
    CURRENT = SimFS(root)
    if not _installed:
        _installed = True
        os.stat = _stat
        os.open = _os_open
        os.read = _os_read
        os.lseek = _os_lseek
        os.close = _os_close
    # open() of the modules under test: a module attribute shadows the builtin (re-attached whenever the
    # library modules were imported afresh)
    import baize.wsgi.responses as wr
    import baize.datastructures as ds
    wr.open = _open
    ds.open = _open
    return CURRENT
