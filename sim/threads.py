"""SimThreads: real threads, one runnable at a time, every switch decided by the Tape.

* every simulated thread is a real daemon thread gated by a semaphore (baton passing);
* blocking primitives are stubs with the stdlib's semantics written against the
  scheduler: queue.Queue, Future.result/exception, ThreadPoolExecutor.submit,
  threading.Thread.start/join, threading.Semaphore.acquire, time.sleep/time/monotonic.  They are installed on the
  stdlib objects and fall back to the real implementation when the caller is not a
  simulated thread, so a refactor of the code under test stays inside the simulation;
* line-level pre-emption: sys.settrace in simulated threads, active only in frames of
  the files named in trace_files; on each line event a draw decides whether to yield;
* virtual time: blocked threads carry a predicate and an optional deadline; with no
  runnable thread the clock jumps to the earliest deadline; with none -> deadlock.
"""
import concurrent.futures as cf
import concurrent.futures.thread as cft
import queue as _queue
import sys
import threading
import time as _timemod

from .core import HarnessError

REAL_WAIT = 30.0   # seconds of real time the scheduler waits for a thread to yield back


class SimKilled(BaseException):
    pass


class _Gate(threading.Semaphore):
    """The scheduler's own baton semaphores: bound to the real acquire whatever is installed on Semaphore later."""
    acquire = threading.Semaphore.acquire
    __enter__ = acquire


_tls = threading.local()
ACTIVE = None   # the scheduler of the run in progress (one per process at a time)


def cur():
    return getattr(_tls, "cur", None)


class SThread:
    __slots__ = ("sched", "fn", "name", "gate", "state", "pred", "deadline", "timed_out", "exc", "what", "t", "started")

    def __init__(self, sched, fn, name):
        self.sched = sched
        self.fn = fn
        self.name = name
        self.gate = _Gate(0)
        self.state = "ready"      # ready | blocked | done
        self.pred = None
        self.deadline = None
        self.timed_out = False
        self.exc = None
        self.what = None
        self.started = False
        self.t = _RealThread(target=self._boot, daemon=True, name="sim-" + name)

    def _boot(self):
        self.gate.acquire()
        _tls.cur = self
        s = self.sched
        try:
            if not s.killing:
                self.started = True
                if s.trace_files:
                    sys.settrace(s._tracer)
                self.fn()
        except SimKilled:
            pass
        except BaseException as e:  # noqa
            self.exc = e
        finally:
            sys.settrace(None)
            _tls.cur = None
            self.state = "done"
            s.main_gate.release()


class Sched:
    def __init__(self, tape, ctx, trace_files=(), preempt=(0, 1), step_cap=20000, vcap=10000.0):
        self.tape = tape
        self.ctx = ctx
        self.now = 0.0
        self.threads = []
        self.main_gate = _Gate(0)
        self.killing = False
        self.trace_files = tuple(trace_files)
        self.pre_num, self.pre_den = preempt
        self.switches = 0
        self.preemptions = 0
        self.step_cap = step_cap
        self.vcap = vcap
        self.last = None
        self.nspawn = 0
        self.pool_delay = 0.0
        self.pool_busy = {}      # id(executor) -> work items being executed by a worker
        self.pool_queue = {}     # id(executor) -> tickets of the items not yet picked up, in submission order
        self.pool_capacity = True

    # -- thread management -----------------------------------------------------------------
    def spawn(self, fn, name=None):
        self.nspawn += 1
        th = SThread(self, fn, name or "t%d" % self.nspawn)
        self.threads.append(th)
        _real.get("tstart", threading.Thread.start)(th.t)
        return th

    # -- called inside simulated threads ------------------------------------------------------
    def _yield(self, th):
        self.main_gate.release()
        th.gate.acquire()
        if self.killing:
            raise SimKilled()

    def preempt(self, what=""):
        th = cur()
        if th is None or self.killing:
            return
        th.state = "ready"
        self._yield(th)

    def maybe_preempt(self, what=""):
        """A yield opportunity at a stub call."""
        th = cur()
        if th is None or self.killing:
            return
        if self.tape.draw(3) == 1:
            self.preemptions += 1
            self.preempt(what)

    def block_until(self, pred, timeout=None, what=""):
        th = cur()
        if self.killing:
            raise SimKilled()
        if pred():
            return True
        if timeout is not None and timeout <= 0:
            return False
        th.pred = pred
        th.deadline = None if timeout is None else self.now + timeout
        th.state = "blocked"
        th.what = what
        try:
            self._yield(th)
        finally:
            ok = not th.timed_out
            th.timed_out = False
            th.pred = None
            th.deadline = None
        return ok

    def sleep(self, d):
        if d and d > 0:
            self.block_until(lambda: False, d, "sleep")
        else:
            self.maybe_preempt("sleep0")

    def _tracer(self, frame, event, arg):
        if frame.f_code.co_filename.endswith(self.trace_files):
            return self._ltracer
        return None

    def _ltracer(self, frame, event, arg):
        if event == "line" and not self.killing and self.pre_num and self.tape.draw(self.pre_den) < self.pre_num:
            self.preemptions += 1
            self.ctx.sch("pre", cur().name, frame.f_code.co_name)
            self.preempt("line")
        return self._ltracer

    # -- main loop (scheduler thread) ----------------------------------------------------------
    def run(self):
        steps = 0
        while True:
            live = [t for t in self.threads if t.state != "done"]
            if not live:
                return "ok"
            runnable = [t for t in live if t.state == "ready" or (t.pred is not None and t.pred())]
            if not runnable:
                dl = [t.deadline for t in live if t.deadline is not None]
                if not dl:
                    return "deadlock"
                self.now = max(self.now, min(dl))
                if self.now > self.vcap:
                    return "timelimit"
                for t in live:
                    if t.deadline is not None and t.deadline <= self.now:
                        t.timed_out = True
                        runnable.append(t)
            # simplest choice (0) = keep running the thread that ran last
            if self.last in runnable:
                runnable.remove(self.last)
                runnable.insert(0, self.last)
            t = runnable[self.tape.draw(len(runnable))] if len(runnable) > 1 else runnable[0]
            if t is not self.last:
                self.switches += 1
            self.last = t
            t.state = "ready"
            self.ctx.sch("run", t.name, round(self.now, 6))
            t.gate.release()
            if not self.main_gate.acquire(timeout=REAL_WAIT):
                raise HarnessError("simulated thread %s did not yield back within %.0fs of real time (escaped into real blocking?)" % (t.name, REAL_WAIT))
            steps += 1
            if steps > self.step_cap:
                return "steplimit"

    def snapshot(self):
        return [(t.name, t.state, t.what if t.state == "blocked" else None) for t in self.threads]

    def kill_all(self):
        self.killing = True
        for t in self.threads:
            guard = 0
            while t.state != "done":
                t.gate.release()
                if not self.main_gate.acquire(timeout=REAL_WAIT):
                    raise HarnessError("thread %s could not be torn down" % t.name)
                guard += 1
                if guard > 1000:
                    raise HarnessError("thread %s keeps blocking during teardown" % t.name)
        for t in self.threads:
            _real.get("tjoin", threading.Thread.join)(t.t, REAL_WAIT)


# ---------------------------------------------------------------------------------------------
# stubs installed on the stdlib objects
# ---------------------------------------------------------------------------------------------
_RealThread = threading.Thread
_installed = False
_real = {}


def _sim():
    s = ACTIVE
    if s is None or cur() is None:
        return None
    return s


def _q_put(self, item, block=True, timeout=None):
    s = _sim()
    if s is None:
        return _real["put"](self, item, block, timeout)
    s.maybe_preempt("Queue.put")
    if block and timeout is not None and timeout < 0:
        raise ValueError("'timeout' must be a non-negative number")        # as the stdlib does, whatever the queue holds
    if self.maxsize > 0 and self._qsize() >= self.maxsize:
        if not block:
            raise _queue.Full
        if not s.block_until(lambda: self._qsize() < self.maxsize, timeout, "Queue.put"):
            raise _queue.Full
    self._put(item)
    self.unfinished_tasks += 1
    s.ctx.sch("put", cur().name, s.ctx.notes.get("qrepr", _short)(item))


def _q_get(self, block=True, timeout=None):
    s = _sim()
    if s is None:
        return _real["get"](self, block, timeout)
    s.maybe_preempt("Queue.get")
    if block and timeout is not None and timeout < 0:
        raise ValueError("'timeout' must be a non-negative number")
    if not self._qsize():
        if not block:
            raise _queue.Empty
        if not s.block_until(lambda: self._qsize() > 0, timeout, "Queue.get"):
            raise _queue.Empty
    item = self._get()
    s.ctx.sch("get", cur().name, s.ctx.notes.get("qrepr", _short)(item))
    return item


def _short(x):
    return type(x).__name__


def _q_qsize(self):
    if _sim() is None:
        return _real["qsize"](self)
    return self._qsize()


def _q_empty(self):
    if _sim() is None:
        return _real["empty"](self)
    return not self._qsize()


def _q_full(self):
    if _sim() is None:
        return _real["full"](self)
    return 0 < self.maxsize <= self._qsize()


def _q_join(self):
    s = _sim()
    if s is None:
        return _real["qjoin"](self)
    s.block_until(lambda: self.unfinished_tasks == 0, None, "Queue.join")


def _q_task_done(self):
    if _sim() is None:
        return _real["task_done"](self)
    if self.unfinished_tasks <= 0:
        raise ValueError("task_done() called too many times")
    self.unfinished_tasks -= 1


def _f_result(self, timeout=None):
    s = _sim()
    if s is None:
        return _real["result"](self, timeout)
    s.maybe_preempt("Future.result")
    if not s.block_until(self.done, timeout, "Future.result"):
        raise cf.TimeoutError()
    return _real["result"](self, 0)


def _f_exception(self, timeout=None):
    s = _sim()
    if s is None:
        return _real["exception"](self, timeout)
    s.maybe_preempt("Future.exception")
    if not s.block_until(self.done, timeout, "Future.exception"):
        raise cf.TimeoutError()
    return _real["exception"](self, 0)


def _ex_submit(self, fn, /, *args, **kwargs):
    s = _sim()
    if s is None:
        return _real["submit"](self, fn, *args, **kwargs)
    f = cf.Future()
    s.ctx.notes["submits"] = s.ctx.notes.get("submits", 0) + 1

    delay = s.pool_delay
    key = id(self)
    cap = getattr(self, "_max_workers", None) if s.pool_capacity else None
    ticket = s.ctx.notes["submits"]
    waiting = s.pool_queue.setdefault(key, [])
    busy = s.pool_busy
    busy.setdefault(key, 0)
    waiting.append(ticket)

    def work():
        # a saturated pool: the work item waits in the pool's queue before a worker picks it up
        if delay:
            s.ctx.fault("pool_saturated")
            s.sleep(delay)
        # the pool has max_workers workers and a FIFO queue: an item beyond that waits until a worker is free
        if cap:
            if busy[key] >= cap:
                s.ctx.fault("pool_at_capacity_item_queued")
            s.block_until(lambda: busy[key] < cap and waiting[0] == ticket, None, "pool.queue")
        waiting.remove(ticket)
        if not f.set_running_or_notify_cancel():
            s.ctx.probe("pool_item_cancelled_before_start")
            return
        busy[key] += 1
        try:
            r = fn(*args, **kwargs)
        except SimKilled:
            raise
        except BaseException as e:  # noqa
            busy[key] -= 1
            f.set_exception(e)
        else:
            busy[key] -= 1
            f.set_result(r)

    th = s.spawn(work, "pool%d" % s.ctx.notes["submits"])
    f._sim_thread = th
    s.maybe_preempt("submit")
    return f


def _sem_acquire(self, blocking=True, timeout=None):
    s = _sim()
    if s is None:
        return _real["sem_acquire"](self, blocking, timeout)
    if not blocking and timeout is not None:
        raise ValueError("can't specify timeout for non-blocking acquire")
    s.maybe_preempt("Semaphore.acquire")
    if not s.block_until(lambda: self._value > 0, timeout if blocking else 0, "Semaphore.acquire"):
        return False
    self._value -= 1
    return True


def _t_start(self):
    s = _sim()
    if s is None:
        return _real["tstart"](self)
    self._sim_thread = s.spawn(self.run, "thr-" + self.name.replace("Thread-", ""))
    s.maybe_preempt("Thread.start")


def _t_join(self, timeout=None):
    s = _sim()
    th = getattr(self, "_sim_thread", None)
    if s is None or th is None:
        return _real["tjoin"](self, timeout)
    s.block_until(lambda: th.state == "done", timeout, "Thread.join")


def _t_is_alive(self):
    th = getattr(self, "_sim_thread", None)
    if th is None:
        return _real["tis_alive"](self)
    return th.state != "done"


def _sleep(d):
    s = _sim()
    if s is None:
        return _real["sleep"](d)
    if d < 0:
        raise ValueError("sleep length must be non-negative")
    s.sleep(d)


def _vtime():
    s = _sim()
    return _real["time"]() if s is None else 1_700_000_000.0 + s.now


def _vmonotonic():
    s = _sim()
    return _real["monotonic"]() if s is None else 1000.0 + s.now


def install():
    global _installed
    if _installed:
        return
    _installed = True
    Q = _queue.Queue
    _real.update(put=Q.put, get=Q.get, qsize=Q.qsize, empty=Q.empty, full=Q.full, qjoin=Q.join, task_done=Q.task_done,
                 result=cf.Future.result, exception=cf.Future.exception, submit=cft.ThreadPoolExecutor.submit,
                 sem_acquire=threading.Semaphore.acquire,
                 tstart=threading.Thread.start, tjoin=threading.Thread.join, tis_alive=threading.Thread.is_alive,
                 sleep=_timemod.sleep, time=_timemod.time, monotonic=_timemod.monotonic)
    Q.put, Q.get, Q.qsize, Q.empty, Q.full, Q.join, Q.task_done = _q_put, _q_get, _q_qsize, _q_empty, _q_full, _q_join, _q_task_done
    Q.put_nowait = lambda self, item: self.put(item, block=False)
    Q.get_nowait = lambda self: self.get(block=False)
    cf.Future.result = _f_result
    cf.Future.exception = _f_exception
    cft.ThreadPoolExecutor.submit = _ex_submit
    threading.Semaphore.acquire = _sem_acquire
    threading.Semaphore.__enter__ = _sem_acquire
    threading.Thread.start = _t_start
    threading.Thread.join = _t_join
    threading.Thread.is_alive = _t_is_alive
    _timemod.sleep = _sleep
    _timemod.time = _vtime
    _timemod.monotonic = _vmonotonic


class simulation:
    """with simulation(tape, ctx, ...) as sched: sched.spawn(...); outcome = sched.run()"""

    def __init__(self, tape, ctx, **kw):
        self.kw = kw
        self.tape = tape
        self.ctx = ctx

    def __enter__(self):
        global ACTIVE
        install()
        if ACTIVE is not None:
            raise HarnessError("nested thread simulation")
        self.s = ACTIVE = Sched(self.tape, self.ctx, **self.kw)
        return self.s

    def __exit__(self, *exc):
        global ACTIVE
        try:
            self.s.kill_all()
        finally:
            self.ctx.sim_time += self.s.now
            ACTIVE = None
        return False
