"""Abstract HTTP request and its two presentations (WSGI environ / ASGI scope)."""
from urllib.parse import quote


class AbstractRequest:
    def __init__(self, method="GET", path="/", root_path="", query="", headers=(), body=b"",
                 client=("127.0.0.1", 50000), server=("testserver", 80), scheme="http",
                 http_version="1.1"):
        self.method = method
        self.path = path              # decoded unicode path
        self.root_path = root_path
        self.query = query            # str, latin-1 subset (as on the wire)
        self.headers = [(k, v) for k, v in headers]   # [(name, value)] str/latin-1
        self.body = body
        self.client = client
        self.server = server
        self.scheme = scheme
        self.http_version = http_version

    def header(self, name, default=None):
        for k, v in self.headers:
            if k.lower() == name.lower():
                return v
        return default

    # -- ASGI -----------------------------------------------------------------
    def to_scope(self, extensions=None):
        scope = {
            "type": "http",
            "asgi": {"version": "3.0", "spec_version": "2.3"},
            "http_version": self.http_version,
            "method": self.method,
            "scheme": self.scheme,
            "path": self.path,
            "raw_path": quote(self.path, safe="/").encode("ascii"),
            "root_path": self.root_path,
            "query_string": self.query.encode("latin-1"),
            "headers": [(k.lower().encode("latin-1"), v.encode("latin-1")) for k, v in self.headers],
        }
        if self.client is not None:
            scope["client"] = tuple(self.client)
        if self.server is not None:
            scope["server"] = tuple(self.server)
        if extensions is not None:
            scope["extensions"] = extensions
        return scope

    # -- WSGI -----------------------------------------------------------------
    def to_environ(self, wsgi_input, errors=None):
        def tolatin(s):
            return s.encode("utf-8").decode("latin-1")

        env = {
            "REQUEST_METHOD": self.method,
            "SCRIPT_NAME": tolatin(self.root_path),
            "PATH_INFO": tolatin(self.path),
            "QUERY_STRING": self.query,
            "SERVER_NAME": self.server[0] if self.server else "testserver",
            "SERVER_PORT": str(self.server[1]) if self.server else "80",
            "SERVER_PROTOCOL": "HTTP/" + self.http_version,
            "wsgi.version": (1, 0),
            "wsgi.url_scheme": self.scheme,
            "wsgi.input": wsgi_input,
            "wsgi.errors": errors,
            "wsgi.multithread": True,
            "wsgi.multiprocess": False,
            "wsgi.run_once": False,
        }
        if self.client is not None:
            env["REMOTE_ADDR"] = self.client[0]
            env["REMOTE_PORT"] = str(self.client[1])
        for k, v in self.headers:
            key = k.upper().replace("-", "_")
            if key in ("CONTENT_TYPE", "CONTENT_LENGTH"):
                env[key] = v
            else:
                key = "HTTP_" + key
                if key in env:
                    env[key] = env[key] + ("; " if key == "HTTP_COOKIE" else ",") + v
                else:
                    env[key] = v
        return env
