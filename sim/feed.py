"""BodyFeed: deliver one encoded multipart body, in a given chunking, to the five parsing surfaces."""
import asyncio

from .asgi_peer import AsgiHttpPeer
from .httpreq import AbstractRequest
from .loop import run_sim
from .wsgi_peer import WsgiPeer

SURFACES = ("decoder", "parse_stream", "parse_async_stream", "wsgi_form", "asgi_form")


class ChunkedInput:
    """wsgi.input that returns the planned pieces (a piece longer than the requested size is split)."""

    def __init__(self, pieces, ctx=None):
        self.pieces = [p for p in pieces if p]
        self.i = 0
        self.rest = b""
        self.reads = 0
        self.delivered = 0
        self.on_read = None

    def read(self, size=-1):
        self.reads += 1
        if self.on_read is not None:
            self.on_read(self.delivered)
        if not self.rest:
            if self.i >= len(self.pieces):
                return b""
            self.rest = self.pieces[self.i]
            self.i += 1
        if size is None or size < 0:
            out = self.rest + b"".join(self.pieces[self.i:])
            self.i = len(self.pieces)
            self.rest = b""
        else:
            out, self.rest = self.rest[:size], self.rest[size:]
        self.delivered += len(out)
        return out


def items_of_sync(result):
    """Normalise [(name, str | UploadFile-like)] into comparable tuples."""
    out = []
    for name, v in result:
        if isinstance(v, str):
            out.append((name, v))
        else:
            v.seek(0)
            data = v.read()
            out.append((name, ("file", v.filename, dict(v.headers), data)))
    return out


async def items_of_async(result):
    out = []
    for name, v in result:
        if isinstance(v, str):
            out.append((name, v))
        else:
            await v.aseek(0)
            data = await v.aread()
            out.append((name, ("file", v.filename, dict(v.headers), data)))
    return out


def run_decoder(boundary, pieces, charset="utf8", reuse_buffer=False):
    """Event-level decoder -> items; raises whatever the decoder raises."""
    from baize.multipart import Data, Epilogue, Field, File, MultipartDecoder, NeedData, Preamble, safe_decode
    dec = MultipartDecoder(boundary.encode("latin-1"), charset)
    items = []
    cur = None
    done = False
    extra = {"preamble": None, "epilogue": None, "max_buffer": 0}

    def drain():
        nonlocal cur, done
        while not done:
            ev = dec.next_event()
            if isinstance(ev, NeedData):
                return
            if isinstance(ev, Preamble):
                extra["preamble"] = ev.data
            elif isinstance(ev, Field):
                cur = ["field", ev.name, None, ev.headers, bytearray()]
            elif isinstance(ev, File):
                cur = ["file", ev.name, ev.filename, ev.headers, bytearray()]
            elif isinstance(ev, Data):
                cur[4].extend(ev.data)
                if not ev.more_data:
                    if cur[0] == "field":
                        items.append((cur[1], safe_decode(bytes(cur[4]), charset)))
                    else:
                        items.append((cur[1], ("file", cur[2], dict(cur[3]), bytes(cur[4]))))
                    cur = None
            elif isinstance(ev, Epilogue):
                extra["epilogue"] = ev.data
                done = True

    shared = bytearray() if reuse_buffer else None
    for c in pieces:
        if shared is not None:      # a producer refilling ONE buffer (readinto style): the decoder must have copied what it keeps
            shared[:] = c
            dec.receive_data(shared)
        else:
            dec.receive_data(c)
        drain()
        extra["max_buffer"] = max(extra["max_buffer"], len(dec.buffer))
    if not done:
        dec.receive_data(None)
        drain()
    return items, extra


def run_parse_stream(boundary, pieces, file_factory=None, charset="utf8", reuse_buffer=False, **limits):
    from baize.datastructures import UploadFile
    from baize.multipart_helper import parse_stream
    def refill():
        shared = bytearray()
        for c in pieces:
            shared[:] = c
            yield shared

    res = parse_stream(refill() if reuse_buffer else iter(pieces), boundary.encode("latin-1"), charset, file_factory=file_factory or UploadFile, **limits)
    return res


def run_parse_async_stream(ctx, boundary, pieces, delays=None, file_factory=None, charset="utf8", post=None, **limits):
    from baize.datastructures import UploadFile
    from baize.multipart_helper import parse_async_stream

    async def scenario(loop):
        async def stream():
            for i, p in enumerate(pieces):
                d = delays[i % len(delays)] if delays else 0
                if d:
                    await asyncio.sleep(d)
                yield p

        res = await parse_async_stream(stream(), boundary.encode("latin-1"), charset, file_factory=file_factory or UploadFile, **limits)
        if post is not None:
            return await post(res)
        return res

    res, loop = run_sim(scenario, ctx.sched, ctx, vcap=100000.0, step_cap=2_000_000)
    return res


def run_wsgi_form(ctx, ct, pieces, in_handler=False, body_first=False, no_content_length=False):
    from baize.wsgi import Request
    body = b"".join(pieces)
    req_abs = AbstractRequest("POST", "/", headers=[("content-type", ct), ("content-length", str(len(body)))], body=body)
    peer = WsgiPeer(ctx, ctx.sched, req_abs, short_reads=False)
    inp = ChunkedInput(pieces)
    peer.environ["wsgi.input"] = inp
    if no_content_length:      # a de-chunked upload / HTTP/1.0 close-delimited body: the server's input simply ends
        peer.environ.pop("CONTENT_LENGTH", None)
    req = Request(peer.environ)
    if body_first:      # the raw body was looked at (logging, a signature check) before the form
        req.body
    if in_handler:
        # the application looks at the form while it handles another exception (try: request.json / except: request.form)
        try:
            raise LookupError("the application's own exception, being handled")
        except LookupError:
            items = req.form.multi_items()
    else:
        items = req.form.multi_items()
    # the application keeps the parsed items, not the request: the uploads must stay readable after the request and the
    # form mapping are gone (reference counting frees them right here)
    del req
    try:
        return items_of_sync(items), inp
    finally:
        for _, v in items:
            if not isinstance(v, str):
                v.close()


def run_asgi_form(ctx, ct, pieces, delays=None, in_handler=False, body_first=False):
    from baize.asgi import Request
    body = b"".join(pieces)
    msgs = []
    for i, p in enumerate(pieces):
        msgs.append({"type": "http.request", "body": p, "more_body": i < len(pieces) - 1, "delay": (delays[i % len(delays)] if delays else 0.0)})

    async def scenario(loop):
        req_abs = AbstractRequest("POST", "/", headers=[("content-type", ct), ("content-length", str(len(body)))], body=body)
        peer = AsgiHttpPeer(loop, ctx, ctx.sched, req_abs, msgs, complete_disconnects=False)
        req = Request(peer.scope, peer.receive, peer.send)
        if body_first:
            await req.body
        if in_handler:
            try:
                raise LookupError("the application's own exception, being handled")
            except LookupError:
                items = (await req.form).multi_items()
        else:
            items = (await req.form).multi_items()
        del req
        try:
            return await items_of_async(items), peer.recv_calls
        finally:
            for _, v in items:
                if not isinstance(v, str):
                    await v.aclose()

    res, loop = run_sim(scenario, ctx.sched, ctx, vcap=100000.0, step_cap=2_000_000)
    return res


class Abandon(Exception):
    """The producer of a request body fails / the client goes away in the middle of the body."""


def abandoned_requests(ctx, boundary, ct, body, cut, delays=None):
    """History before a healthy request: on every streaming surface one request is abandoned after `cut` bytes of a
    well-formed body (producer exception, wsgi.input error, client disconnect).  Whatever they raise is theirs; nothing of
    them may show up in a later request."""
    from baize.asgi import Request as ARequest
    from baize.datastructures import UploadFile
    from baize.multipart_helper import parse_async_stream, parse_stream
    from baize.wsgi import Request as WRequest
    head = body[:cut]
    pieces = [head[:len(head) // 2], head[len(head) // 2:]]

    def producer():
        for p in pieces:
            yield p
        raise Abandon("producer failed")

    def quiet(fn):
        try:
            fn()
        except Exception as e:  # noqa
            ctx.ev("abandoned", type(e).__name__)

    quiet(lambda: parse_stream(producer(), boundary.encode("latin-1"), "utf8", file_factory=UploadFile))

    async def aproducer():
        for p in pieces:
            yield p
        raise Abandon("producer failed")

    async def scenario(loop):
        try:
            await parse_async_stream(aproducer(), boundary.encode("latin-1"), "utf8", file_factory=UploadFile)
        except Exception as e:  # noqa
            ctx.ev("abandoned", type(e).__name__)
        req_abs = AbstractRequest("POST", "/", headers=[("content-type", ct), ("content-length", str(len(body)))], body=body)
        msgs = [{"type": "http.request", "body": p, "more_body": True, "delay": 0.0} for p in pieces] + [{"type": "http.disconnect", "delay": 0.0}]
        peer = AsgiHttpPeer(loop, ctx, ctx.sched, req_abs, msgs, complete_disconnects=False)
        try:
            await ARequest(peer.scope, peer.receive, peer.send).form
        except Exception as e:  # noqa
            ctx.ev("abandoned", type(e).__name__)

    run_sim(scenario, ctx.sched, ctx, vcap=100000.0, step_cap=2_000_000)

    def wsgi():
        req_abs = AbstractRequest("POST", "/", headers=[("content-type", ct), ("content-length", str(len(body)))], body=body)
        peer = WsgiPeer(ctx, ctx.sched, req_abs, short_reads=False)
        inp = ChunkedInput(pieces + [b"x"])

        def on_read(delivered):
            if delivered >= len(head):
                raise TimeoutError("injected: read timed out")

        inp.on_read = on_read
        peer.environ["wsgi.input"] = inp
        WRequest(peer.environ).form

    quiet(wsgi)


def len_upload_factory():
    """An UploadFile subclass that reports its size through len(): falsy while nothing was written yet."""
    from baize.datastructures import UploadFile

    class LenUpload(UploadFile):
        def __len__(self):
            pos = self.file.tell()
            self.file.seek(0, 2)
            n = self.file.tell()
            self.file.seek(pos)
            return n

    return LenUpload
