"""Reference user agent for cookies: RFC 6265 section 5 (parsing, storage, Cookie header).

Only what a server can observe is modelled: one origin, one path space.

* ``parse_set_cookie`` - 5.2: the cookie-pair is the text before the first ';',
  name/value split at the first '=', WSP trimmed, *no* unquoting (a user agent
  stores the value text verbatim, double quotes included); attributes are matched
  case-insensitively, the last occurrence of an attribute wins.
* ``parse_cookie_date`` - the 5.1.1 date algorithm (always read as UTC).
* ``CookieJar`` - 5.3 storage model: Max-Age has precedence over Expires, a
  non-positive Max-Age means "earliest representable time", a cookie replaces an
  older one with the same (name, domain, path) keeping its creation order,
  expired cookies are evicted.

Expiry reading.  RFC 6265 calls a cookie expired when its expiry date is "in the
past"; browsers implement ``now >= expiry``.  The two readings differ only at the
single instant now == expiry.  ``CookieJar`` uses ``expiry <= now`` (the reading
under which *more* cookies count as expired), which is the lenient one for the
server wherever the oracle demands that a cookie be gone.
"""
import calendar
import re

_DELIM = re.compile(r"[\x09\x20-\x2f\x3b-\x40\x5b-\x60\x7b-\x7e]+")
_TIME = re.compile(r"^(\d{1,2}):(\d{1,2}):(\d{1,2})(?:\D.*)?$", re.S)
_DOM = re.compile(r"^(\d{1,2})(?:\D.*)?$", re.S)
_YEAR = re.compile(r"^(\d{2,4})(?:\D.*)?$", re.S)
_MONTHS = ("jan", "feb", "mar", "apr", "may", "jun", "jul", "aug", "sep", "oct", "nov", "dec")
_WSP = " \t"

SESSION = float("inf")
EARLIEST = float("-inf")


def parse_cookie_date(s):
    """RFC 6265 5.1.1. Returns POSIX seconds (int) or None when the algorithm fails."""
    found_time = found_dom = found_month = found_year = False
    hour = minute = second = dom = month = year = 0
    for tok in _DELIM.split(s):
        if not tok:
            continue
        if not found_time:
            m = _TIME.match(tok)
            if m:
                found_time = True
                hour, minute, second = int(m.group(1)), int(m.group(2)), int(m.group(3))
                continue
        if not found_dom:
            m = _DOM.match(tok)
            if m:
                found_dom = True
                dom = int(m.group(1))
                continue
        if not found_month:
            mm = tok[:3].lower()
            if mm in _MONTHS:
                found_month = True
                month = _MONTHS.index(mm) + 1
                continue
        if not found_year:
            m = _YEAR.match(tok)
            if m:
                found_year = True
                year = int(m.group(1))
                continue
    if 70 <= year <= 99:
        year += 1900
    elif 0 <= year <= 69:
        year += 2000
    if not (found_time and found_dom and found_month and found_year):
        return None
    if dom < 1 or dom > 31 or year < 1601 or hour > 23 or minute > 59 or second > 59:
        return None
    if dom > calendar.monthrange(year, month)[1]:
        return None
    return calendar.timegm((year, month, dom, hour, minute, second, 0, 0, 0))


class SetCookie:
    """Result of parsing one Set-Cookie header value."""
    __slots__ = ("name", "value", "attrs", "expires_raw", "expires_ts", "max_age_raw", "max_age",
                 "path", "domain", "secure", "httponly")

    def __init__(self, name, value):
        self.name = name
        self.value = value          # raw text as a user agent stores it
        self.attrs = []             # [(lower-case name, value text)] in order
        self.expires_raw = None     # text of the last Expires attribute, if any
        self.expires_ts = None      # ... parsed (None when absent or unparsable -> attribute ignored)
        self.max_age_raw = None     # text of the last Max-Age attribute, if any
        self.max_age = None         # ... as int (None when absent or syntactically ignored)
        self.path = None
        self.domain = None
        self.secure = False
        self.httponly = False


def parse_set_cookie(line):
    """RFC 6265 5.2 on the header value ``line`` (str). None if the UA ignores the line."""
    if ";" in line:
        pair, rest = line.split(";", 1)
        rest = ";" + rest
    else:
        pair, rest = line, ""
    if "=" not in pair:
        return None
    name, value = pair.split("=", 1)
    name, value = name.strip(_WSP), value.strip(_WSP)
    if not name:
        return None
    c = SetCookie(name, value)
    while rest:
        rest = rest[1:]                       # discard the ';'
        if ";" in rest:
            av, rest = rest.split(";", 1)
            rest = ";" + rest
        else:
            av, rest = rest, ""
        if "=" in av:
            an, avv = av.split("=", 1)
        else:
            an, avv = av, ""
        an, avv = an.strip(_WSP), avv.strip(_WSP)
        low = an.lower()
        c.attrs.append((low, avv))
        if low == "expires":
            c.expires_raw = avv
            c.expires_ts = parse_cookie_date(avv)
        elif low == "max-age":
            c.max_age_raw = avv
            # 5.2.2: first char DIGIT or '-', remainder all DIGITs, else the attribute is ignored
            c.max_age = int(avv) if re.fullmatch(r"-?[0-9]+", avv) else None
        elif low == "domain":
            c.domain = avv.lstrip(".").lower() or None
        elif low == "path":
            c.path = avv if avv.startswith("/") else None
        elif low == "secure":
            c.secure = True
        elif low == "httponly":
            c.httponly = True
    return c


class Entry:
    __slots__ = ("name", "value", "expiry", "persistent", "path", "domain", "created", "meta")

    def __init__(self, name, value, expiry, persistent, path, domain, created, meta):
        self.name, self.value, self.expiry, self.persistent = name, value, expiry, persistent
        self.path, self.domain, self.created, self.meta = path, domain, created, meta


class CookieJar:
    def __init__(self):
        self.store = {}        # (name, domain, path) -> Entry ; dict order == creation order
        self.counter = 0

    @staticmethod
    def expiry_of(max_age, expires_ts, now):
        """(expiry, persistent) per 5.3 step 3: Max-Age wins over Expires."""
        if max_age is not None:
            return (EARLIEST if max_age <= 0 else now + max_age), True
        if expires_ts is not None:
            return expires_ts, True
        return SESSION, False

    def put(self, name, value, max_age, expires_ts, now, path=None, domain=None, meta=None):
        expiry, persistent = self.expiry_of(max_age, expires_ts, now)
        key = (name, domain, path or "/")
        old = self.store.get(key)
        if old is not None:
            created = old.created
        else:
            self.counter += 1
            created = self.counter
        e = Entry(name, value, expiry, persistent, path or "/", domain, created, meta)
        if old is not None:
            self.store[key] = e            # keeps the position of the old cookie
        else:
            self.store[key] = e
        self.evict(now)
        return e

    def receive(self, sc, now, meta=None):
        """Store a parsed Set-Cookie (``SetCookie``) received at instant ``now``."""
        return self.put(sc.name, sc.value, sc.max_age, sc.expires_ts, now, sc.path, sc.domain, meta)

    def evict(self, now):
        dead = [k for k, e in self.store.items() if e.expiry <= now]
        for k in dead:
            del self.store[k]
        return len(dead)

    def live(self, now):
        """Unexpired cookies at ``now`` in creation order (expired ones are evicted for good)."""
        self.evict(now)
        return list(self.store.values())

    def get(self, name, now=None):
        if now is not None:
            self.evict(now)
        for e in self.store.values():
            if e.name == name:
                return e
        return None

    def drop(self, name):
        for k in [k for k, e in self.store.items() if e.name == name]:
            del self.store[k]

    @staticmethod
    def cookie_header(entries):
        """5.4 step 4: name=value pairs joined by '; ' (value text verbatim)."""
        return "; ".join("%s=%s" % (e.name, e.value) for e in entries)
