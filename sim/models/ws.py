"""C11 helpers: the simulated ASGI WebSocket *server peer* and the reference automaton.

Nothing in this file looks at baize.  The peer plays the server side of the ASGI
WebSocket protocol (spec "www/websocket": connect, receive*, disconnect towards the
application; accept / send / close from it).  The automaton is the one of the
property statement: two variables, client_state ("what the peer has told us") and
application_state ("what we have told the peer"), each in
connecting < connected < disconnected.
"""
import asyncio

CONNECTING, CONNECTED, DISCONNECTED = 0, 1, 2
STATE_NAMES = ("connecting", "connected", "disconnected")
STATE_ORDER = {"CONNECTING": 0, "CONNECTED": 1, "DISCONNECTED": 2}

T_CONNECT = "websocket.connect"
T_RECEIVE = "websocket.receive"
T_DISCONNECT = "websocket.disconnect"
T_ACCEPT = "websocket.accept"
T_SEND = "websocket.send"
T_CLOSE = "websocket.close"


class ClientGone(OSError):
    """What the server raises from send() once the client is gone (ASGI: an IOError subclass)."""


def build_script(frames, code, reason, both_keys):
    """connect, the frames, disconnect(code).  frames: [(kind, value)], kind in text/bytes."""
    msgs = [{"type": T_CONNECT}]
    for kind, val in frames:
        m = {"type": T_RECEIVE}
        if both_keys:          # spec: both keys may be present, the unused one is None
            m["bytes"] = None
            m["text"] = None
        m[kind] = val
        msgs.append(m)
    d = {"type": T_DISCONNECT, "code": code}
    if reason is not None:
        d["reason"] = reason
    msgs.append(d)
    return msgs


def frame_of(msg):
    """(kind, value) of a websocket.receive message, else None."""
    if not isinstance(msg, dict) or msg.get("type") != T_RECEIVE:
        return None
    if msg.get("text") is not None:
        return ("text", msg["text"])
    if msg.get("bytes") is not None:
        return ("bytes", msg["bytes"])
    return ("none", None)


# ----------------------------------------------------------------------------
# server peer
# ----------------------------------------------------------------------------
class WsPeer:
    """Scripted server side of one WebSocket connection under SimLoop.

    receive(): hands out the script in order (call order = message order), each message
    not before its arrival instant (cumulative planned delay + a seeded extra latency);
    counts calls; counts calls issued after a disconnect message had been *delivered*.
    A call beyond the script gets another disconnect (a real server would park it
    forever; returning keeps the run finite, the counter keeps the evidence).
    send(): records a copy of every event with virtual time and calling task, then a
    seeded back-pressure latency; from the ``fail_from``-th call on it raises ClientGone.
    """

    def __init__(self, loop, ctx, tape, script, delays, *, recv_extra=(0.0,), send_lats=(0.0,), fail_from=None):
        self.loop = loop
        self.ctx = ctx
        self.tape = tape
        self.script = script
        self.arrival = []
        t = 0.0
        for d in delays:
            t += d
            self.arrival.append(t)
        self.recv_extra = recv_extra
        self.send_lats = send_lats
        self.fail_from = fail_from
        self.scope = {"type": "websocket", "asgi": {"version": "3.0", "spec_version": "2.3"}, "http_version": "1.1",
                      "scheme": "ws", "path": "/ws", "raw_path": b"/ws", "root_path": "", "query_string": b"",
                      "headers": [(b"host", b"testserver")], "client": ("127.0.0.1", 50000), "server": ("testserver", 80),
                      "subprotocols": ["chat"],
                      # servers such as uvicorn / hypercorn offer the denial-response extension on every handshake
                      "extensions": {"websocket.http.response": {}}}
        self.claimed = 0            # receive() calls so far == index of the next message to hand out
        self.recv_calls = 0
        self.recv_by = {}
        self.recv_after_disc = 0
        self.disc_delivered = False
        self.delivered_idx = []     # script indexes in delivery order
        self.frames_delivered = 0
        self.sent = []              # (vtime, task name, event copy)
        self.sent_by = {}
        self.send_calls = 0
        self.send_raised = 0
        self.hook = None            # called at every protocol event (state sampling)

    def next_msg(self):
        return self.script[self.claimed] if self.claimed < len(self.script) else None

    @staticmethod
    def _task():
        t = asyncio.current_task()
        return t.get_name() if t is not None else "?"

    async def receive(self):
        who = self._task()
        self.recv_calls += 1
        self.recv_by[who] = self.recv_by.get(who, 0) + 1
        if self.disc_delivered:
            self.recv_after_disc += 1
        i = self.claimed
        self.claimed += 1
        j = min(i, len(self.script) - 1)
        extra = self.recv_extra[self.tape.draw(len(self.recv_extra))]
        due = self.arrival[j] + extra
        now = self.loop.time()
        if due > now:
            self.ctx.fault("recv_waited")
            try:
                await asyncio.sleep(due - now)
            except asyncio.CancelledError:
                # a receive() cancelled while it waits has not taken the message: the next call gets it
                if self.claimed == i + 1:
                    self.claimed = i
                raise
        msg = dict(self.script[j])
        self.delivered_idx.append(j)
        if msg["type"] == T_DISCONNECT:
            if not self.disc_delivered:
                self.ctx.fault("disconnect_delivered")
            self.disc_delivered = True
        elif msg["type"] == T_RECEIVE:
            self.frames_delivered += 1
        self.ctx.sch("recv", who, msg["type"], round(self.loop.time(), 6))
        if self.hook is not None:
            self.hook("recv")
        return msg

    async def send(self, msg):
        who = self._task()
        self.send_calls += 1
        now = round(self.loop.time(), 6)
        rec = dict(msg) if isinstance(msg, dict) else {"type": "<%s>" % type(msg).__name__}
        self.sent.append((now, who, rec))
        self.sent_by[who] = self.sent_by.get(who, 0) + 1
        self.ctx.sch("send", who, rec.get("type"), now)
        if self.hook is not None:
            self.hook("send")
        if self.fail_from is not None and self.send_calls >= self.fail_from:
            self.send_raised += 1
            self.ctx.fault("send_raises")
            raise ClientGone("client is gone (send call %d)" % self.send_calls)
        lat = self.send_lats[self.tape.draw(len(self.send_lats))]
        if lat:
            self.ctx.fault("send_latency")
            await asyncio.sleep(lat)

    def closes_forwarded(self):
        return sum(1 for _, _, r in self.sent if r.get("type") == T_CLOSE)


GRAMMAR_LETTER = {T_ACCEPT: "a", T_SEND: "s", T_CLOSE: "c"}


def grammar_ok(types):
    """close | accept send* close?  (or nothing at all)."""
    s = "".join(GRAMMAR_LETTER.get(t, "?") for t in types)
    if s == "" or s == "c":
        return True
    if not s.startswith("a"):
        return False
    rest = s[1:]
    if rest.endswith("c"):
        rest = rest[:-1]
    return all(ch == "s" for ch in rest)


# ----------------------------------------------------------------------------
# reference automaton
# ----------------------------------------------------------------------------
class Spec:
    """Prediction for one call.

    cls: "legal"   - must behave exactly as predicted below
         "illegal" - must raise (state error), forward nothing, issue no receive()
         "either"  - the statement does not decide; a clean state error is accepted,
                     anything else must be the legal behaviour
         "lenient" - after a send() fault: only "a state error is clean" and
                     "forwards at most the one event it was asked to" are demanded
    """
    __slots__ = ("cls", "fwd", "recv", "ret", "exc", "unjudged", "ncs", "nas", "npos", "noop_ok", "connect_ok",
                 "must_raise", "items", "end")

    def __init__(self, cls, **kw):
        self.cls = cls
        self.fwd = []
        self.recv = 0
        self.ret = None          # None | ("msg", script message) | ("val", value)
        self.exc = None          # None | ("disc", code)
        self.unjudged = False
        self.ncs = self.nas = self.npos = None
        self.noop_ok = False
        self.connect_ok = False
        self.must_raise = True
        self.items = None        # predicted items of an iteration
        self.end = None          # "break" | "disconnect" | "unjudged"
        for k, v in kw.items():
            setattr(self, k, v)


def op_name(op):
    if op[0] == "raw":
        return "raw-" + op[1].get("type", "?").split(".")[-1]
    return op[0]


def op_event(op):
    """The ASGI event a send-side call asks the wrapper to forward: (type, key, value)."""
    n = op[0]
    if n == "accept":
        return (T_ACCEPT, "subprotocol", op[1])
    if n == "send_text":
        return (T_SEND, "text", op[1])
    if n == "send_bytes":
        return (T_SEND, "bytes", op[1])
    if n == "close":
        return (T_CLOSE, "code", 1000 if op[1] is None else op[1])
    if n == "raw":
        return (op[1].get("type"), "__raw__", op[1])
    raise ValueError(op)


def event_matches(rec, exp):
    typ, key, val = exp
    if rec.get("type") != typ:
        return False
    if key == "__raw__":
        return rec == val
    if key == "text":
        return rec.get("text") == val and rec.get("bytes") is None
    if key == "bytes":
        return rec.get("bytes") == val and rec.get("text") is None
    if key == "code":
        return rec.get("code", 1000) == val
    if key == "subprotocol":
        return rec.get("subprotocol") == val
    return True


class WsModel:
    """client_state x application_state x read position, nothing else."""

    def __init__(self, script):
        self.script = script
        self.cs = CONNECTING
        self.as_ = CONNECTING
        self.pos = 0
        self.as_unknown = False   # a send() fault fired: what "was forwarded" is ambiguous from here on
        self.broken = False       # a per-call demand failed: stop predicting (global monitors continue)

    def state(self):
        return "cs=%s,as=%s" % (STATE_NAMES[self.cs], "unknown" if self.as_unknown else STATE_NAMES[self.as_])

    # -- what does the grammar say about forwarding an event of this type now? ----
    def _grammar_allows(self, typ):
        if typ == T_ACCEPT:
            return self.as_ == CONNECTING
        if typ == T_SEND:
            return self.as_ == CONNECTED
        if typ == T_CLOSE:
            return self.as_ != DISCONNECTED
        return False

    @staticmethod
    def _after(as_, typ):
        if typ == T_ACCEPT:
            return CONNECTED
        if typ == T_CLOSE:
            return DISCONNECTED
        return as_

    def spec(self, op):
        n = op[0]
        cs, a, pos = self.cs, self.as_, self.pos
        if n in ("send_text", "send_bytes", "raw", "close", "accept") and self.as_unknown:
            sp = Spec("lenient", fwd=[op_event(op)], ncs=cs, nas=a, npos=pos)
            sp.connect_ok = n == "accept" and cs == CONNECTING
            return sp
        if n == "accept":
            if a != CONNECTING:
                # second accept / accept after close.  Consuming the (frame-less) connect
                # event on the way is not forbidden by the statement.
                return Spec("illegal", connect_ok=(cs == CONNECTING))
            first = cs == CONNECTING
            sp = Spec("either" if cs == DISCONNECTED else "legal", fwd=[op_event(op)], recv=1 if first else 0,
                      ncs=max(cs, CONNECTED), nas=CONNECTED, npos=pos + (1 if first else 0))
            return sp
        if n in ("send_text", "send_bytes", "raw"):
            ev = op_event(op)
            if not self._grammar_allows(ev[0]):
                return Spec("illegal")
            # after the client's disconnect was delivered a wrapper may also refuse to send
            return Spec("either" if cs == DISCONNECTED else "legal", fwd=[ev], ncs=cs, nas=self._after(a, ev[0]), npos=pos)
        if n == "close":
            if a == DISCONNECTED:
                return Spec("legal", fwd=[], ncs=cs, nas=a, npos=pos)          # idempotent: silently nothing
            return Spec("legal", fwd=[op_event(op)], ncs=cs, nas=DISCONNECTED, npos=pos, noop_ok=(cs == DISCONNECTED))
        if n == "receive":
            if cs == DISCONNECTED:
                return Spec("illegal")
            m = self.script[pos]
            return Spec("legal", recv=1, ret=("msg", m), npos=pos + 1, nas=a,
                        ncs=DISCONNECTED if m["type"] == T_DISCONNECT else CONNECTED)
        if n in ("receive_text", "receive_bytes"):
            if cs == DISCONNECTED:
                return Spec("illegal")
            kind = n.split("_")[1]
            m = self.script[pos]
            sp = Spec("legal" if a == CONNECTED and not self.as_unknown else "either", recv=1, npos=pos + 1, nas=a, ncs=CONNECTED)
            if m["type"] == T_DISCONNECT:
                sp.exc = ("disc", m["code"])
                sp.ncs = DISCONNECTED
            elif m["type"] == T_RECEIVE and frame_of(m)[0] == kind:
                sp.ret = ("val", frame_of(m)[1])
            else:
                sp.unjudged = True      # typed receive meets connect / a frame of the other type
            return sp
        if n in ("iter_text", "iter_bytes"):
            if cs == DISCONNECTED:
                return Spec("illegal", must_raise=False)
            kind = n.split("_")[1]
            want = op[1]                # 0 = until the disconnect
            items = []
            p = pos
            ncs = cs
            end = "break"
            while not want or len(items) < want:
                m = self.script[p]
                p += 1
                ncs = CONNECTED
                if m["type"] == T_DISCONNECT:
                    ncs = DISCONNECTED
                    end = "disconnect"
                    break
                if m["type"] == T_RECEIVE and frame_of(m)[0] == kind:
                    items.append(frame_of(m)[1])
                    continue
                end = "unjudged"
                break
            sp = Spec("legal" if a == CONNECTED and not self.as_unknown else "either", recv=p - pos, npos=p, nas=a, ncs=ncs,
                      items=items, end=end, unjudged=(end == "unjudged"))
            return sp
        raise ValueError(op)

    def commit(self, sp):
        self.cs, self.as_, self.pos = sp.ncs, sp.nas, sp.npos
