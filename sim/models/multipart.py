"""Reference encoder / generator for multipart/form-data (RFC 7578 over RFC 2046).

The generated part list *is* the expected parse result.
"""
BCHARS = "0123456789abcdefghijklmnopqrstuvwxyzABCDEFGHIJKLMNOPQRSTUVWXYZ'()+_,-./:=?"
NAME_ALPHA = ["a", "b", "name", "x1", " ", ";", "=", "%", "&", "'", "é", "中", "-", ".", "[]", "<", ",",
              # not line breaks of the multipart framing (only CR and LF are): ordinary characters of a name
              "\x0b", "\x0c", "\x1c", "\x1e", "\u0085", "\u2028", "\u2029",
              # path-like names (a directory upload sends relative paths as file names): just characters
              "/", "dir/sub/", "..", ":",
              # valid UTF-8 that is not NFC-normalised (a macOS file name, the Kelvin / Ohm signs): other code points, not other text
              "e\u0301", "\u212a", "\u2126"]
TEXT_UNI = ["é", "中", "€", "\U0001f600", " ", "\x00", "\x7f", " "]


def gen_boundary(t):
    kind = t.weighted([(4, "simple"), (3, "webkit"), (3, "random"), (2, "meta"), (1, "one"), (1, "long"), (1, "dashes"), (1, "space")])
    if kind == "simple":
        return "bnd"
    if kind == "webkit":
        return "----WebKitFormBoundary" + "".join(t.choice(BCHARS[:62]) for _ in range(16))
    if kind == "random":
        return "".join(t.choice(BCHARS) for _ in range(1 + t.draw(30)))
    if kind == "meta":
        return "".join(t.choice("()+.?_,:='/-a") for _ in range(1 + t.draw(12)))
    if kind == "one":
        return t.choice("a-.?(+")
    if kind == "long":
        return "".join(t.choice(BCHARS) for _ in range(70))
    if kind == "dashes":
        return "-" * (1 + t.draw(4)) + t.choice(["", "a", "-a-"])
    # space inside, never at the end
    return t.choice(["a b", "x y z", "b  c"]) + t.choice(["", "1"])


def _adversarial_pieces(boundary):
    b = boundary.encode("latin-1")
    delim = b"\r\n--" + b
    pieces = [b"\r", b"\n", b"\r\n", b"-", b"--", b"\r\n-", b"\r\n--", b"\n--", b"\r--", b"a", b"xyz", b" ", b"\t"]
    # proper prefixes of CRLF--boundary, the delimiter minus its last byte
    for k in {1, 2, 3, 4, max(1, len(delim) // 2), len(delim) - 1}:
        if 0 < k < len(delim):
            pieces.append(delim[:k])
    if len(b) > 1:
        pieces.append(b"--" + b[:-1])
        pieces.append(b"\r\n--" + b[:-1] + b"~")
        pieces.append(b[:-1])
    pieces.append(b"--" + b[:-1] + b"\r\n" if len(b) > 1 else b"--\r\n")
    return pieces


def gen_content(t, boundary, text=False, max_pieces=8, big=None):
    """Bytes that do not contain '--'+boundary. text=True: valid UTF-8."""
    pieces = _adversarial_pieces(boundary)
    n = t.draw(max_pieces + 1)
    out = []
    for _ in range(n):
        k = t.draw(10)
        if k < 6:
            out.append(t.choice(pieces))
        elif k < 8:
            if text:
                out.append(t.choice(TEXT_UNI).encode("utf-8"))
            else:
                out.append(t.bytes_of(1 + t.draw(6)))
        elif k == 8:
            out.append(t.choice([b"\r", b"\n", b"-"]) * (1 + t.draw(5)))
        else:
            out.append(b"a" * (1 + t.draw(40)))
    if big:
        # one long run without line breaks in the middle
        out.insert(t.draw(len(out) + 1), (t.choice([b"x", b"-", b"ab", b"\x00"]) * big)[:big])
    content = b"".join(out)
    return scrub(content, boundary)


def scrub(content, boundary):
    delim = b"--" + boundary.encode("latin-1")
    guard = 0
    while delim in content and guard < 50:
        i = content.find(delim)
        # break the occurrence by replacing its last byte
        last = i + len(delim) - 1
        repl = b"~" if content[last:last + 1] != b"~" else b"!"
        content = content[:last] + repl + content[last + 1:]
        guard += 1
    if delim in content:
        content = content.replace(b"-", b"_")
    return content


def gen_name(t, allow_empty=True):
    n = t.draw(4)
    if n == 0:
        return "" if allow_empty and t.draw(4) == 0 else "f"
    s = "".join(t.choice(NAME_ALPHA) for _ in range(n))
    return s.strip() if t.draw(3) else s


def gen_form(t, max_parts=4, file_bias=2, big_file=None, allow_pre_epi=True):
    boundary = gen_boundary(t)
    nparts = t.draw(max_parts + 1)
    parts = []
    for i in range(nparts):
        is_file = t.draw(4) < file_bias
        name = gen_name(t)
        if is_file:
            p = {"kind": "file", "name": name, "filename": gen_name(t), "content": None, "ctype": None, "extra": None}
            if t.draw(2):
                p["ctype"] = t.choice(["text/plain", "application/octet-stream", "image/png; x=1", "a/b"])
            if t.draw(4) == 0:
                p["extra"] = ("X-Extra", t.choice(["1", "v; w", "é", "a:b"]))
            elif t.draw(8) == 0:
                # a header line that is not UTF-8 (a raw Latin-1 byte): it alone falls back to latin-1, the other lines stay UTF-8
                p["extra_raw"] = ("X-Legacy", b"caf\xe9 r\xe9sum\xe9")
            p["content"] = gen_content(t, boundary, text=False, big=(big_file if (big_file and i == 0) else None))
        else:
            p = {"kind": "field", "name": name, "content": gen_content(t, boundary, text=True), "extra": None}
            if t.draw(6) == 0:
                p["extra"] = ("Content-Type", "text/plain; charset=utf-8")
        if i == 0 and t.draw(15) == 0:
            # the conventional hint field of RFC 7578 4.6: here an ordinary text field like any other
            p = {"kind": "field", "name": "_charset_", "content": t.choice([b"iso-8859-1", b"windows-1252", b"utf-16", b"shift_jis"]), "extra": None}
        if p["kind"] == "file" and t.draw(12) == 0:
            p["param_case"] = t.choice([("Name", "FileName"), ("NAME", "FILENAME"), ("name", "Filename")])
        if t.draw(10) == 0:
            p["pad"] = t.choice([b" ", b"  ", b"\t", b" \t "])       # linear white space after the delimiter (a gateway's padding)
        parts.append(p)
    preamble = b""
    epilogue = b""
    if allow_pre_epi:
        if t.draw(5) == 0:
            preamble = scrub(t.choice([b"This is a preamble", b"pre\r\nline2", b"-", b"--", b"\r\n"]), boundary)
        if t.draw(5) == 0:
            epilogue = t.choice([b"epilogue", b"\r\n", b"--", b"junk\r\n--x"])
    return {"boundary": boundary, "parts": parts, "preamble": preamble, "epilogue": epilogue,
            "final_crlf": t.draw(4) != 0 or bool(epilogue)}


def _q(s):
    """quoted-string content: backslash and double quote are sent as quoted pairs"""
    return s.replace("\\", "\\\\").replace('"', '\\"')


def part_headers(p):
    """Header lines of a part as (name, value) list in emission order."""
    if p["kind"] == "file":
        pn, pf = p.get("param_case", ("name", "filename"))          # parameter names are case-insensitive
        hs = [("Content-Disposition", 'form-data; %s="%s"; %s="%s"' % (pn, _q(p["name"]), pf, _q(p["filename"])))]
        if p.get("ctype"):
            hs.append(("Content-Type", p["ctype"]))
    else:
        hs = [("Content-Disposition", 'form-data; name="%s"' % _q(p["name"]))]
    if p.get("extra"):
        hs.append(p["extra"])
    return hs


def encode_form(form):
    b = form["boundary"].encode("latin-1")
    out = []
    if form["preamble"]:
        out.append(form["preamble"] + b"\r\n")
    for p in form["parts"]:
        out.append(b"--" + b + p.get("pad", b"") + b"\r\n")          # RFC 2046: dash-boundary transport-padding CRLF
        for k, v in part_headers(p):
            out.append(("%s: %s\r\n" % (k, v)).encode("utf-8"))
        if p.get("extra_raw"):
            out.append(p["extra_raw"][0].encode("ascii") + b": " + p["extra_raw"][1] + b"\r\n")
        out.append(b"\r\n")
        out.append(p["content"])
        out.append(b"\r\n")
    out.append(b"--" + b + b"--")
    if form["final_crlf"]:
        out.append(b"\r\n")
    out.append(form["epilogue"])
    return b"".join(out)


def delimiter_offsets(form):
    """Byte offsets (start, end) of every delimiter line in the encoded body."""
    b = form["boundary"].encode("latin-1")
    body = encode_form(form)
    offs = []
    needle = b"--" + b
    i = body.find(needle)
    while i >= 0:
        offs.append((max(0, i - 2), min(len(body), i + len(needle) + 8)))      # (incl. transport padding and the line break)
        i = body.find(needle, i + 1)
    return offs


def content_type_header(form, charset=None):
    b = form["boundary"]
    needs_quote = any(c in b for c in ' ()<>@,;:\\"/[]?=')
    v = 'multipart/form-data; boundary=%s' % ('"%s"' % b if needs_quote else b)
    if charset:
        v += "; charset=%s" % charset
    return v


def expected_items(form):
    """[(field name, str) | (field name, ("file", filename, headers dict lower-case, bytes))]"""
    out = []
    for p in form["parts"]:
        if p["kind"] == "field":
            out.append((p["name"], p["content"].decode("utf-8")))
        else:
            hs = {}
            for k, v in part_headers(p):
                hs[k.lower()] = v
            if p.get("extra_raw"):
                hs[p["extra_raw"][0].lower()] = p["extra_raw"][1].decode("latin-1")
            out.append((p["name"], ("file", p["filename"], hs, p["content"])))
    return out


def chunkings(t, body, form=None, max_chunks=None):
    """A seeded partition of body into consecutive chunks (empty chunks possible)."""
    n = len(body)
    mode = t.weighted([(2, "whole"), (3, "random"), (3, "delims"), (2, "bytes"), (2, "small"), (1, "halves")])
    cuts = set()
    if mode == "random":
        for _ in range(1 + t.draw(6)):
            cuts.add(t.draw(n + 1))
    elif mode == "delims" and form is not None:
        offs = delimiter_offsets(form)
        for _ in range(1 + t.draw(4)):
            if offs:
                s, e = offs[t.draw(len(offs))]
                cuts.add(min(n, s + t.draw(max(1, e - s + 1))))
        if t.draw(3) == 0:
            for s, e in offs:
                cuts.add(min(n, s + t.draw(max(1, e - s + 1))))
    elif mode == "bytes":
        if n <= 4096:
            cuts = set(range(n + 1))
        else:
            a = t.draw(n)
            cuts = set(range(a, min(n, a + 300)))
    elif mode == "small":
        k = 1 + t.draw(7)
        if n > 4096:     # keep the number of chunks of large bodies bounded
            k = t.choice([1021, 4096, 16384, 65536, 65537])
        cuts = set(range(0, n + 1, k))
    elif mode == "halves":
        cuts.add(n // 2)
    pts = sorted(c for c in cuts if 0 < c < n)
    pieces = [body[i:j] for i, j in zip([0] + pts, pts + [n])]
    if not pieces:
        pieces = [b""]
    # insert empty chunks
    k = t.draw(4)
    if k == 3:
        for _ in range(1 + t.draw(3)):
            pieces.insert(t.draw(len(pieces) + 1), b"")
    return mode, pieces


def content_spans(form):
    """[(kind, start, end)] byte offsets of every part's content inside encode_form(form)."""
    b = form["boundary"].encode("latin-1")
    pos = 0
    if form["preamble"]:
        pos += len(form["preamble"]) + 2
    spans = []
    for p in form["parts"]:
        pos += 2 + len(b) + len(p.get("pad", b"")) + 2
        for k, v in part_headers(p):
            pos += len(("%s: %s\r\n" % (k, v)).encode("utf-8"))
        if p.get("extra_raw"):
            pos += len(p["extra_raw"][0]) + 2 + len(p["extra_raw"][1]) + 2
        pos += 2
        spans.append((p["kind"], pos, pos + len(p["content"])))
        pos += len(p["content"]) + 2
    return spans
