"""A streaming WHATWG EventSource parser (HTML Living Standard, 9.2.6 'Interpreting an
event stream') used as the client peer of the SSE responses.

feed(bytes) may be called with arbitrary chunking (a multibyte character or a CR LF
pair may be split across chunks).  Every blank line ends a *block*; blocks are recorded
whether or not they dispatch an event so that the oracle can attribute them.
"""
import codecs


class Block:
    __slots__ = ("dispatched", "type", "data", "id_set", "retry_set", "comment_only", "nlines", "last_event_id", "fields")

    def __repr__(self):
        return "Block(dispatched=%r, type=%r, data=%r, id=%r, retry=%r, comment_only=%r, nlines=%d)" % (
            self.dispatched, self.type, self.data, self.id_set, self.retry_set, self.comment_only, self.nlines)


class EventSourceParser:
    def __init__(self, charset="utf-8"):
        self.dec = codecs.getincrementaldecoder(charset)(errors="replace")
        self.first = True
        self.line = []
        self.last_cr = False
        self.blocks = []
        self.events = []          # dispatched (type, data, lastEventId)
        self.last_event_id = ""
        self.reconnection_time = None
        self._reset_block()

    def _reset_block(self):
        self.data = []
        self.etype = ""
        self.id_buf = None
        self.retry_buf = None
        self.ncomment = 0
        self.nfield = 0
        self.nlines = 0

    def feed(self, chunk):
        text = self.dec.decode(chunk)
        if not text:
            return
        if self.first:
            self.first = False
            if text.startswith("﻿"):
                text = text[1:]
        for ch in text:
            if self.last_cr:
                self.last_cr = False
                if ch == "\n":
                    continue
            if ch == "\r":
                self._line("".join(self.line))
                self.line = []
                self.last_cr = True
            elif ch == "\n":
                self._line("".join(self.line))
                self.line = []
            else:
                self.line.append(ch)

    def _line(self, line):
        if line == "":
            self._dispatch()
            return
        self.nlines += 1
        if line.startswith(":"):
            self.ncomment += 1
            return
        if ":" in line:
            f, v = line.split(":", 1)
            if v.startswith(" "):
                v = v[1:]
        else:
            f, v = line, ""
        self.nfield += 1
        if f == "event":
            self.etype = v
        elif f == "data":
            self.data.append(v)
        elif f == "id":
            if "\0" not in v:
                self.id_buf = v
        elif f == "retry":
            if v != "" and all(c in "0123456789" for c in v):
                self.retry_buf = int(v)

    def _dispatch(self):
        b = Block()
        b.nlines = self.nlines
        b.comment_only = self.ncomment > 0 and self.nfield == 0
        b.fields = self.nfield
        b.type = self.etype
        b.id_set = self.id_buf
        b.retry_set = self.retry_buf
        if self.id_buf is not None:
            self.last_event_id = self.id_buf
        if self.retry_buf is not None:
            self.reconnection_time = self.retry_buf
        if self.data:
            b.dispatched = True
            b.data = "\n".join(self.data)
            self.events.append((self.etype or "message", b.data, self.last_event_id))
        else:
            b.dispatched = False
            b.data = None
        b.last_event_id = self.last_event_id
        self.blocks.append(b)
        self._reset_block()

    def pending_garbage(self):
        """Unterminated trailing text / an unfinished block (must be empty after a complete stream)."""
        return "".join(self.line), self.nlines
