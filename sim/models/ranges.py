"""Reference resolver for Range headers (RFC 7233) over integer sets, and a parser for
multipart/byteranges bodies that reads part content by the declared Content-Range length."""
import re

SPEC_RE = re.compile(r"^\s*(\d*)\s*-\s*(\d*)\s*$")


def gen_range(t, size, chunk):
    """Returns (header value, kind) where kind in {'valid', 'malformed', 'other-unit'}."""
    k = t.draw(12)
    if k == 0:
        return t.choice(["bytes=", "bytes=abc", "bytes", "bytes=-", "bytes=5-4", "bytes= ", "bytes=a-b", "bytes=9-1"]), "malformed"
    if k == 1:
        return t.choice(["items=0-1", "chars=0-", "BYTES=0-1", "bytes =0-1"]), "other-unit"
    nums = [0, 0, 1, 2, max(0, size - 1), size, size + 1, max(0, chunk - 1), chunk, chunk + 1, 2 * chunk, size // 2, size * 2 + 3, 10 ** 12,
            2 ** 31, 2 ** 63 - 1, 2 ** 63, 10 ** 19, 10 ** 20, 10 ** 25 + 7]     # positions beyond every machine word: still numbers
    nspec = 1 + t.draw(5) if t.draw(3) else 1
    if size >= 60 and t.draw(25) == 0:
        # many small disjoint ranges (more than any "reasonable" cap): still exactly what was asked for
        k = 17 + t.draw(6)
        step = max(3, size // (k + 1))
        return "bytes=" + ",".join("%d-%d" % (i * step, i * step) for i in range(k)), "valid"
    inside = size > 0 and t.draw(2) == 0     # keep every spec inside the file: the set stays satisfiable
    if inside:
        nums = [n for n in nums if n < size]
    specs = []
    for _ in range(nspec):
        form = t.draw(6)
        if form <= 2:
            a = t.choice(nums) if t.draw(3) else t.draw(size if inside else size + 2)
            b = a + t.choice([0, 0, 1, 2, chunk, size, 10 ** 9]) if t.draw(4) else a + t.draw(size + 2)
            specs.append("%d-%d" % (a, b))
        elif form <= 4:
            specs.append("%d-" % (t.choice(nums) if t.draw(2) else t.draw(size if inside else size + 2)))
        elif inside:
            specs.append("-%d" % t.choice([1, 1, 2, min(chunk, size), max(1, size // 2), max(1, size - 1), size]))
        else:
            specs.append("-%d" % t.choice([1, 1, 2, chunk, max(1, size // 2), max(1, size - 1), max(1, size), size + 1, 0, 10 ** 9]))
    sep = t.choice([",", ",", ", ", " , ", ",\t", ",  ", " ,\t "])      # OWS = *( SP / HTAB ) around the commas
    return "bytes=" + sep.join(specs), "valid"


def resolve(header, size):
    """-> dict(kind, sat=[(a,b) inclusive...], beyond=int, overlong=bool)

    kind: 'absent' | 'malformed' | 'other-unit' | 'set'
    """
    if header is None or header == "":
        return {"kind": "absent"}
    unit, eq, rest = header.partition("=")
    if not eq:
        return {"kind": "malformed"}
    if unit != "bytes":
        return {"kind": "other-unit"}
    parts = rest.split(",")
    sat, beyond, overlong, zero_suffix = [], 0, False, False
    if not any(p.strip() for p in parts):
        return {"kind": "malformed"}
    for p in parts:
        if not p.strip():
            continue   # empty list elements are allowed by the list grammar
        m = SPEC_RE.match(p)
        if not m or (m.group(1) == "" and m.group(2) == ""):
            return {"kind": "malformed"}
        a, b = m.group(1), m.group(2)
        if a != "":
            a = int(a)
            if b != "":
                b = int(b)
                if b < a:
                    return {"kind": "malformed"}
            else:
                b = None
            if a >= size:
                beyond += 1
            else:
                sat.append((a, size - 1 if b is None else min(b, size - 1)))
        else:
            n = int(b)
            if n == 0:
                beyond += 1
                zero_suffix = True
            elif size == 0:
                beyond += 1
            elif n > size:
                overlong = True
                sat.append((0, size - 1))
            else:
                sat.append((size - n, size - 1))
    return {"kind": "set", "sat": sat, "beyond": beyond, "overlong": overlong, "zero_suffix": zero_suffix}


def positions(intervals):
    s = set()
    for a, b in intervals:
        s.update(range(a, b + 1))
    return s


def union_intervals(intervals):
    out = []
    for a, b in sorted(intervals):
        if out and a <= out[-1][1] + 1:
            out[-1] = (out[-1][0], max(out[-1][1], b))
        else:
            out.append((a, b))
    return out


CR_RE = re.compile(rb"^bytes (\d+)-(\d+)/(\d+|\*)$")


class ByterangesError(Exception):
    pass


def parse_byteranges(body, boundary):
    """-> [(start, end_inclusive, total, part headers dict, content bytes)]; raises ByterangesError."""
    b = boundary.encode("latin-1")
    pos = 0
    parts = []

    def eat_lb(p):
        if body[p:p + 2] == b"\r\n":
            return p + 2
        if body[p:p + 1] == b"\n":
            return p + 1
        raise ByterangesError("line break expected at offset %d, found %r" % (p, body[p:p + 8]))

    # optional leading line break before the first delimiter
    if body[pos:pos + 2] == b"\r\n":
        pos += 2
    elif body[pos:pos + 1] == b"\n" and body[pos + 1:pos + 3] == b"--":
        pos += 1
    while True:
        if body[pos:pos + 2 + len(b)] != b"--" + b:
            raise ByterangesError("delimiter expected at offset %d, found %r" % (pos, body[pos:pos + 20]))
        pos += 2 + len(b)
        if body[pos:pos + 2] == b"--":
            pos += 2
            rest = body[pos:]
            if rest not in (b"", b"\n", b"\r\n"):
                raise ByterangesError("trailing bytes after the close delimiter: %r" % rest[:20])
            return parts
        pos = eat_lb(pos)
        headers = {}
        while True:
            if body[pos:pos + 2] == b"\r\n":
                pos += 2
                break
            if body[pos:pos + 1] == b"\n":
                pos += 1
                break
            e = body.find(b"\n", pos)
            if e < 0:
                raise ByterangesError("unterminated part header at %d" % pos)
            line = body[pos:e].rstrip(b"\r")
            pos = e + 1
            k, sep, v = line.partition(b":")
            if not sep:
                raise ByterangesError("part header line without colon: %r" % line[:40])
            headers[k.strip().lower().decode("latin-1")] = v.strip().decode("latin-1")
        cr = headers.get("content-range")
        m = CR_RE.match(cr.encode("latin-1")) if cr is not None else None
        if not m:
            raise ByterangesError("part without a valid Content-Range: %r" % (cr,))
        s, e = int(m.group(1)), int(m.group(2))
        if e < s:
            raise ByterangesError("Content-Range %r has last < first" % cr)
        n = e - s + 1
        content = body[pos:pos + n]
        if len(content) != n:
            raise ByterangesError("part %r truncated: %d of %d bytes" % (cr, len(content), n))
        pos += n
        pos = eat_lb(pos)
        parts.append((s, e, m.group(3).decode(), headers, content))
