"""SimASGI: the server peer for an ASGI HTTP application, plus the protocol monitor."""
import asyncio
import os


class ClientGone(OSError):
    """What a raising server flavour throws from send() once the client is gone."""


class InjectedSendError(OSError):
    """Fault: send() fails at a planned call index."""


SEND_LATS = (0.0, 0.0, 0.0, 0.2, 1.0)
RECV_LATS = (0.0, 0.0, 0.001, 0.5, 1.0)


class AsgiMonitor:
    """ASGI HTTP response grammar (spec 'www', send events).

    start(status:int, headers: iterable of 2-sequences of bytes, lower-case names)
    -> >=1 body events (http.response.body, or zerocopysend iff offered), only the
    last with more_body false -> nothing afterwards.
    """

    def __init__(self, ctx, zerocopy_offered, surface="asgi"):
        self.ctx = ctx
        self.zerocopy = zerocopy_offered
        self.state = "init"   # init -> started -> done
        self.surface = surface
        self.bodies = 0

    def trip(self, clause, detail=""):
        self.ctx.trip("proto|%s|%s" % (self.surface, clause), detail)

    def on_send(self, msg):
        t = msg.get("type") if isinstance(msg, dict) else None
        if not isinstance(msg, dict) or not isinstance(t, str):
            self.trip("message-not-a-dict-with-type", repr(msg)[:200])
            return
        if self.state == "done":
            self.trip("event-after-final-body", t)
            return
        if t == "http.response.start":
            if self.state != "init":
                self.trip("second-start")
                return
            self.state = "started"
            st = msg.get("status")
            if not isinstance(st, int) or isinstance(st, bool):
                self.trip("status-not-int", repr(st))
            hs = msg.get("headers", [])
            try:
                hl = list(hs)
            except TypeError:
                self.trip("headers-not-iterable", repr(hs)[:100])
                hl = []
            for h in hl:
                try:
                    k, v = h
                except (TypeError, ValueError):
                    self.trip("header-not-pair", repr(h)[:100])
                    continue
                if not isinstance(k, (bytes, bytearray)) or not isinstance(v, (bytes, bytearray)):
                    self.trip("header-not-bytes", repr(h)[:100])
                    continue
                if bytes(k) != bytes(k).lower():
                    self.trip("header-name-not-lower-case", repr(bytes(k)))
                if any(c in bytes(k) + bytes(v) for c in b"\r\n\x00"):
                    self.trip("header-control-char", repr(h)[:100])
        elif t == "http.response.body":
            if self.state != "started":
                self.trip("body-before-start")
                return
            b = msg.get("body", b"")
            if not isinstance(b, (bytes, bytearray, memoryview)):
                self.trip("body-not-bytes", type(b).__name__)
            self.bodies += 1
            if not msg.get("more_body", False):
                self.state = "done"
        elif t == "http.response.zerocopysend":
            if not self.zerocopy:
                self.trip("zerocopysend-not-offered")
            if self.state != "started":
                self.trip("body-before-start")
                return
            if not isinstance(msg.get("file"), int):
                self.trip("zerocopy-file-not-fd", repr(msg.get("file")))
            self.bodies += 1
            if not msg.get("more_body", False):
                self.state = "done"
        else:
            self.trip("unknown-event-type", t)

    def on_return(self):
        """The application call returned normally: the sequence must be complete."""
        if self.state != "done":
            self.trip("returned-with-incomplete-response", self.state)


class InjectedReceiveError(Exception):
    pass


class AsgiHttpPeer:
    """One HTTP request/response exchange as the server sees it.

    script: list of dicts {"type": "http.request"|"http.disconnect", "body": b"", "more_body": bool,
                           "delay": float, "omit": set of keys to leave out}
    After the script: receive() parks until the client disconnects (planned instant,
    after the k-th completed send, or once the response is complete).
    """

    def __init__(self, loop, ctx, tape, req, script=None, *, zerocopy=False, raise_after_disconnect=False,
                 disconnect_time=None, disconnect_after_sends=None, send_raise_at=None,
                 send_lats=SEND_LATS, recv_lat_extra=(0.0,), extensions=None, surface="asgi",
                 complete_disconnects=True, recv_raises_after_script=False, alias_equal_events=False, send_stall_from=None):
        self.loop = loop
        self.ctx = ctx
        self.tape = tape
        self.req = req
        ext = dict(extensions or {})
        if zerocopy:
            ext["http.response.zerocopysend"] = {}
        self.scope = req.to_scope(ext if (ext or extensions is not None) else None)
        if script is None:
            script = [{"type": "http.request", "body": req.body, "more_body": False, "delay": 0.0}]
        self.script = list(script)
        self.alias_equal_events = alias_equal_events   # equal events are ONE dict object (the server's), handed over again
        self._event_objects = {}
        self.pos = 0
        self._arrival = []
        t = 0.0
        for m in self.script:
            t += m.get("delay", 0.0)
            self._arrival.append(t)
        self.recv_lock = asyncio.Lock()
        self.recv_calls = 0
        self.recv_returns = []      # (vtime, type, consumer-task-name)
        self.recv_after_disconnect = 0
        self.busy_polling = False
        self.disconnected = loop.create_future()
        self.t_disconnect = None
        self.disc_why = None
        self.on_disconnect = None
        self.on_disconnect_delivered = None
        self.disconnect_delivered = 0
        self.raise_after_disconnect = raise_after_disconnect
        self.disconnect_after_sends = disconnect_after_sends
        self.send_raise_at = send_raise_at
        self.send_stall_from = send_stall_from     # the client stops reading: this send() call and every later one never completes
        self.stalled = loop.create_future()
        self.send_lats = send_lats
        self.recv_lat_extra = recv_lat_extra
        self.complete_disconnects = complete_disconnects
        # the receive channel offers the request and nothing else: a call after the last scripted message raises (a harness
        # or gateway without disconnect notification - baize's own empty_receive behaves like that)
        self.recv_raises_after_script = recv_raises_after_script
        self.monitor = AsgiMonitor(ctx, zerocopy, surface)
        self.sent = []              # (vtime, msg summary)
        self.send_calls = 0
        self.sends_completed = 0
        self.status = None
        self.headers = None         # list[(bytes, bytes)]
        self.body_chunks = []
        self.complete = False
        self.t_complete = None
        self._timed_disconnect = disconnect_time is not None
        if disconnect_time is not None:
            loop.call_later(disconnect_time, self.disconnect_now, "timer")

    # -- client side events ---------------------------------------------------
    def disconnect_now(self, why=""):
        if not self.disconnected.done():
            self.disconnected.set_result(None)
            self.t_disconnect = self.loop.time()
            self.disc_why = why
            if self.on_disconnect is not None:
                self.on_disconnect(why)
            self.ctx.sch("disc", why, round(self.loop.time(), 6))
            if why != "complete":
                self.ctx.fault("disconnect")

    @property
    def is_disconnected(self):
        return self.disconnected.done()

    # -- ASGI callables ----------------------------------------------------------
    async def receive(self):
        self.recv_calls += 1
        if self.disconnect_delivered:
            self.recv_after_disconnect += 1
            if self.recv_after_disconnect > 5000:
                # the application keeps asking although it was told the client is gone: a busy loop that never lets the event loop run
                from .loop import SimStepLimit
                self.busy_polling = True
                raise SimStepLimit("receive() called %d times after the disconnect had been delivered" % self.recv_after_disconnect)
        async with self.recv_lock:
            msg = None
            if self.pos < len(self.script):
                m = self.script[self.pos]
                extra = self.recv_lat_extra[self.tape.draw(len(self.recv_lat_extra))]
                due = self._arrival[self.pos] + extra
                now = self.loop.time()
                gone = self.disconnected.done() and self.disc_why != "complete"
                if due > now and not gone:
                    gone = await self._sleep_or_gone(due - now)
                if gone and m["type"] != "http.disconnect" and due > (self.t_disconnect if self.t_disconnect is not None else now):
                    # the client went away before this part of the request body arrived: it never will
                    self.pos = len(self.script)
                else:
                    self.pos += 1
                    msg = self._build(m)
            if msg is not None:
                pass
            else:
                if self.recv_raises_after_script:
                    self.ctx.fault("receive_channel_raises")
                    self.ctx.sch("recv-raises", round(self.loop.time(), 6))
                    raise InjectedReceiveError("injected: the receive channel has nothing more to offer (call %d)" % self.recv_calls)
                if not self.disconnected.done():
                    await self._wait_disc()
                msg = {"type": "http.disconnect"}
            if msg["type"] == "http.disconnect":
                self.disconnect_delivered += 1
                if self.on_disconnect_delivered is not None:
                    self.on_disconnect_delivered()
                if not self.disconnected.done():
                    self.disconnect_now("script")
            self.recv_returns.append((round(self.loop.time(), 6), msg["type"], len(msg.get("body", b"") or b"")))
            self.ctx.sch("recv", msg["type"], round(self.loop.time(), 6))
            return msg

    async def _sleep_or_gone(self, d):
        """Wait d seconds for the next scripted message; True if the client went away (not: response complete) meanwhile."""
        if self.disc_why == "complete" or not (self.disconnect_after_sends is not None or self._timed_disconnect):
            await asyncio.sleep(d)          # nothing can interrupt the wait: keep the plain timer (and its schedule)
            return False
        try:
            await asyncio.wait_for(self._wait_disc(), d)
        except asyncio.TimeoutError:
            return False
        return self.disc_why != "complete"

    async def _wait_disc(self):
        # wait without making the shared future cancel when one waiter is cancelled
        w = self.loop.create_future()

        def done(_):
            if not w.done():
                w.set_result(None)

        self.disconnected.add_done_callback(done)
        try:
            await w
        finally:
            self.disconnected.remove_done_callback(done)

    def _build(self, m):
        if m["type"] == "http.disconnect":
            return {"type": "http.disconnect"}
        omit = m.get("omit", ())
        msg = {"type": "http.request"}
        if "body" not in omit:
            msg["body"] = bytearray(m.get("body", b"")) if m.get("as_bytearray") else m.get("body", b"")
        if "more_body" not in omit:
            msg["more_body"] = m.get("more_body", False)
        if self.alias_equal_events and not m.get("as_bytearray"):
            key = (msg.get("body"), msg.get("more_body"), tuple(sorted(omit)))
            msg = self._event_objects.setdefault(key, msg)
        return msg

    async def send(self, msg):
        self.send_calls += 1
        idx = self.send_calls
        if isinstance(msg, dict) and msg.get("type") == "http.response.start" and "headers" in msg and not isinstance(msg["headers"], (list, tuple)):
            try:    # the spec allows any iterable (also a one-shot generator): a server reads it once
                msg = dict(msg, headers=list(msg["headers"]))
            except TypeError:
                pass
        self.monitor.on_send(msg)
        t = msg.get("type") if isinstance(msg, dict) else None
        self.ctx.sch("send", t, bool(msg.get("more_body", False)) if isinstance(msg, dict) else None,
                     round(self.loop.time(), 6))
        if self.send_raise_at is not None and idx == self.send_raise_at:
            self.ctx.fault("send_raises")
            raise InjectedSendError("injected send failure at call %d" % idx)
        if self.send_stall_from is not None and idx >= self.send_stall_from:
            self.ctx.fault("client_stops_reading")
            if not self.stalled.done():
                self.stalled.set_result(round(self.loop.time(), 6))
            await self.loop.create_future()
        lat = self.send_lats[self.tape.draw(len(self.send_lats))]
        if lat:
            self.ctx.fault("send_backpressure")
            await asyncio.sleep(lat)
        if self.raise_after_disconnect and self.disconnected.done() and not self.complete:
            self.ctx.fault("send_after_disconnect_raises")
            raise ClientGone("client went away")
        self._apply(msg)
        self.sends_completed += 1
        if self.disconnect_after_sends is not None and self.sends_completed == self.disconnect_after_sends:
            self.disconnect_now("after-send-%d" % self.sends_completed)

    def _apply(self, msg):
        t = msg.get("type")
        now = round(self.loop.time(), 6)
        if t == "http.response.start":
            if self.status is None:
                self.status = msg.get("status")
                try:
                    self.headers = [(bytes(k), bytes(v)) for k, v in msg.get("headers", [])]
                except Exception:
                    self.headers = []
            self.sent.append((now, "start", self.status))
        elif t == "http.response.body":
            b = msg.get("body", b"")
            b = bytes(b) if isinstance(b, (bytes, bytearray, memoryview)) else b""
            more = bool(msg.get("more_body", False))
            self.body_chunks.append(b)
            self.sent.append((now, "body", len(b), more))
            if not more:
                self._completed()
        elif t == "http.response.zerocopysend":
            self.ctx.probe("zerocopy_message")
            fd = msg.get("file")
            data = b""
            if isinstance(fd, int):
                off = msg.get("offset")
                cnt = msg.get("count")
                if off is not None:
                    os.lseek(fd, off, os.SEEK_SET)
                parts = []
                if cnt is None:
                    while True:
                        d = os.read(fd, 65536)
                        if not d:
                            break
                        parts.append(d)
                else:
                    left = cnt
                    while left > 0:
                        d = os.read(fd, min(left, 65536))
                        if not d:
                            break
                        parts.append(d)
                        left -= len(d)
                data = b"".join(parts)
            more = bool(msg.get("more_body", False))
            self.body_chunks.append(data)
            self.sent.append((now, "zerocopy", len(data), more))
            if not more:
                self._completed()

    def _completed(self):
        if not self.complete:
            self.complete = True
            self.t_complete = self.loop.time()
            if self.complete_disconnects:
                self.disconnect_now("complete")

    @property
    def body(self):
        return b"".join(self.body_chunks)

    def header_list(self):
        return [(k.decode("latin-1").lower(), v.decode("latin-1")) for k, v in (self.headers or [])]

    def header(self, name, default=None):
        for k, v in self.header_list():
            if k == name.lower():
                return v
        return default
