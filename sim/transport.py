"""Corrupting transport (C12): wire serialiser, fault injector, tolerant front-end.

    valid request --serialise--> HTTP/1.1 wire bytes + field map
                  --corrupt----> 1..3 faults, positions biased by field (all draws from the plan Tape)
                  [--reframe---> corruption at the source: Content-Length recomputed by the sender]
                  --frontend---> what a tolerant real server hands to the application
                                 (WSGI environ / ASGI scope + body messages), or Rejected

The front-end models what real servers accept, per family, and nothing more:

* request line ``METHOD SP target SP HTTP/1.x`` with single spaces, method a token, version 1.0/1.1;
  the target has no control characters or spaces; ASGI servers (uvicorn h11/httptools, daphne,
  hypercorn) decode the raw path as ASCII, so a target with bytes >= 0x80 never reaches an ASGI
  application; WSGI servers (wsgiref, gunicorn, waitress) decode Latin-1 and accept them;
* header lines ``name: value``; name a token; value with SP/HTAB stripped, Latin-1, and none of
  NUL / CR / LF / VT / FF (h11's rule: ``[^\\x00\\s]`` with inner SP/HTAB); LF or CRLF line ends;
  obs-fold continuation lines are joined with one space; a head larger than 16 KiB is refused;
* ASGI: scope["path"] = unquote(raw_path.decode("ascii")) (invalid UTF-8 -> U+FFFD, exactly what
  uvicorn does), raw_path / query_string raw bytes, header names lower-cased bytes;
* WSGI: PATH_INFO = unquote_to_bytes(raw_path).decode("latin-1"), QUERY_STRING raw Latin-1,
  CONTENT_TYPE / CONTENT_LENGTH / HTTP_* with repeated headers joined by "," (gunicorn, wsgiref);
* Content-Length: ASGI servers refuse a non-numeric or conflicting value; tolerant WSGI servers
  (wsgiref) pass the raw string on.  The body delivered is min(declared, available); when fewer
  bytes than declared arrive the client is gone: ASGI delivers what came and then http.disconnect,
  wsgi.input reports EOF.  No Content-Length (and no chunked coding, never generated) = empty body.
"""
import re
from urllib.parse import unquote, unquote_to_bytes

DIGITS = b"1234567890" * 500            # 5000 digits
NEST = b"[" * 2000                      # deeply nested JSON array
MANY = b"&k=v" * 1500                  # a body / query with thousands of fields
DICTIONARY = [b"\x00", b"\xff", b"%", b"%00", b"..", b"[", b"]", b";", b'"', b"=", DIGITS, b"charset=x",
              b"charset=utf-16", b"boundary=", b"W/", b"bytes=", b"-", b",", b"://", b"[::1", b"\r", NEST,
              # a few more in the same spirit
              b"%ff", b"/", b":", b";charset=undefined", b"\r\n", b" ", b"x", MANY, b"charset=idna", b";charset=punycode", b"charset=utf-7", b"%E9%A1%B5", b"-0000",
              b"; boundary*=utf-8\'\'%E2%82%AC", b"*=utf-8\'\'%E2%82%AC", b";q=inf", b";q=1e999"]
_D = {name: DICTIONARY.index(v) for name, v in
      [("nul", b"\x00"), ("ff", b"\xff"), ("pct", b"%"), ("pct00", b"%00"), ("dots", b".."), ("lb", b"["), ("rb", b"]"),
       ("semi", b";"), ("quote", b'"'), ("eq", b"="), ("digits", DIGITS), ("csx", b"charset=x"), ("cs16", b"charset=utf-16"),
       ("bnd", b"boundary="), ("weak", b"W/"), ("bytes", b"bytes="), ("dash", b"-"), ("comma", b","), ("css", b"://"),
       ("v6", b"[::1"), ("cr", b"\r"), ("nest", NEST), ("pctff", b"%ff"), ("slash", b"/"), ("colon", b":"),
       ("csundef", b";charset=undefined"), ("crlf", b"\r\n"), ("sp", b" "), ("x", b"x")]}


def _ids(*names):
    return [_D[n] for n in names]


# dictionary entries that a grammar-aware mutation of the field would use (chosen half of the time)
PREFERRED = {
    "path": _ids("pct", "pct00", "dots", "digits", "pctff", "slash", "x", "dash", "colon", "semi"),
    "query": _ids("pct", "pct00", "pctff", "eq", "semi", "lb", "rb", "digits", "ff"),
    "h:content-type": _ids("csx", "cs16", "csundef", "bnd", "semi", "quote", "eq", "slash"),
    "h:content-length": _ids("digits", "dash", "x", "comma"),
    "h:range": _ids("digits", "bytes", "dash", "comma", "eq", "sp"),
    "h:if-range": _ids("weak", "quote", "digits", "comma"),
    "h:if-none-match": _ids("weak", "quote", "comma", "x"),
    "h:if-modified-since": _ids("digits", "dash", "colon", "comma", "sp"),
    "h:date": _ids("digits", "dash", "colon", "comma", "sp"),
    "h:host": _ids("v6", "lb", "rb", "colon", "digits", "css", "ff", "slash", "pct"),
    "h:referer": _ids("v6", "lb", "rb", "colon", "digits", "css", "ff", "slash", "pct"),
    "h:cookie": _ids("semi", "eq", "quote", "ff", "pct", "comma"),
    "h:accept": _ids("semi", "comma", "slash", "eq", "quote"),
    "part": _ids("semi", "quote", "eq", "colon", "crlf", "cr", "ff", "x", "sp"),
    "body": _ids("digits", "nest", "lb", "rb", "quote", "ff", "nul", "pct", "eq", "comma", "crlf", "dash"),
}

KINDS = [(4, "splice"), (3, "bitflip"), (2, "drop"), (2, "dup"), (1, "swap"), (2, "truncate")]
MAX_HEAD = 16384


# ----------------------------------------------------------------------------------------------
# serialiser
# ----------------------------------------------------------------------------------------------
def serialise(method, target_path, query, headers, body=b"", part_spans=()):
    """-> (wire bytes, fields) ; fields = [[name, start, end], ...] (absolute offsets).

    target_path: percent-encoded ASCII bytes; query: bytes without '?'; headers: [(name, value)] Latin-1 str;
    part_spans: (start, end) of every multipart part-header block relative to the body.
    """
    out = bytearray()
    fields = []
    out += method.encode("ascii") + b" "
    s = len(out)
    out += target_path
    fields.append(["path", s, len(out)])
    if query is not None:
        out += b"?"
        s = len(out)
        out += query
        fields.append(["query", s, len(out)])
    out += b" HTTP/1.1\r\n"
    for k, v in headers:
        out += k.encode("latin-1") + b": "
        s = len(out)
        out += v.encode("latin-1")
        fields.append(["h:" + k.lower(), s, len(out)])
        out += b"\r\n"
    out += b"\r\n"
    s = len(out)
    out += body
    if body:
        fields.append(["body", s, len(out)])
        for a, b in part_spans:
            fields.append(["part", s + a, s + b])
    return bytes(out), fields


def encode_form_spans(form):
    """The multipart body of models.multipart.encode_form plus the span of every part-header block."""
    from .models import multipart as mpm
    b = form["boundary"].encode("latin-1")
    out = bytearray()
    spans = []
    if form["preamble"]:
        out += form["preamble"] + b"\r\n"
    for p in form["parts"]:
        out += b"--" + b + b"\r\n"
        s = len(out)
        for k, v in mpm.part_headers(p):
            out += ("%s: %s\r\n" % (k, v)).encode("utf-8")
        spans.append((s, len(out)))
        out += b"\r\n"
        out += p["content"]
        out += b"\r\n"
    out += b"--" + b + b"--"
    if form["final_crlf"]:
        out += b"\r\n"
    out += form["epilogue"]
    return bytes(out), spans


# ----------------------------------------------------------------------------------------------
# fault injector (every decision drawn from the Tape handed in)
# ----------------------------------------------------------------------------------------------
def _cls(c):
    # 0 alnum, 1 whitespace / control, 2 punctuation, 3 high
    if 48 <= c <= 57 or 65 <= c <= 90 or 97 <= c <= 122:
        return 0
    if c <= 32:
        return 1
    if c >= 128:
        return 3
    return 2


def _boundaries(data):
    n = len(data)
    out = [0]
    prev = _cls(data[0]) if n else 0
    for i in range(1, n):
        c = _cls(data[i])
        if c != prev or c == 2:
            out.append(i)
        prev = c
    out.append(n)
    return out


def _pick_field(t, fields, weights, need_nonempty):
    cands = []
    for f in fields:
        name = f[0]
        if need_nonempty and f[2] <= f[1]:
            continue
        w = weights.get(name)
        if w is None:
            w = weights.get("h:*", 1) if name.startswith("h:") else weights.get(name, 1)
        if w > 0:
            cands.append((w, f))
    if not cands:
        return None
    return t.weighted(cands)


def _pick_pos(t, wire, s, e, inclusive_end):
    """Absolute position in [s, e] (or [s, e) when not inclusive_end); biased to token boundaries."""
    L = e - s
    if L <= 0:
        return s
    hi = L + 1 if inclusive_end else L
    if L > 400 or t.draw(3) == 0:
        return s + t.draw(hi)
    b = _boundaries(wire[s:e])
    if not inclusive_end:
        b = [i for i in b if i < L] or [0]
    return s + b[t.draw(len(b))]


def _span_len(t, wire, p, e):
    """Length of a span starting at p inside a field ending at e (>= 0)."""
    room = e - p
    if room <= 0:
        return 0
    mode = t.weighted([(4, "one"), (3, "two"), (3, "few"), (3, "token"), (1, "rest")])
    if mode == "one":
        n = 1
    elif mode == "two":
        n = 2
    elif mode == "few":
        n = 1 + t.draw(8)
    elif mode == "token":
        c = _cls(wire[p])
        n = 1
        while n < room and n < 64 and _cls(wire[p + n]) == c and c != 2:
            n += 1
    else:
        n = room
    return min(n, room)


def _shift(fields, a, b, delta):
    """The bytes [a, b) were replaced by something delta bytes longer."""
    for f in fields:
        s, e = f[1], f[2]
        if s <= a and b <= e:          # the field contains the edit (edges inclusive): it grows / shrinks
            f[2] = e + delta
        elif e <= a:                   # entirely before
            continue
        elif s >= b:                   # entirely after
            f[1] = s + delta
            f[2] = e + delta
        else:                          # partial overlap (a nested part-header span): clamp
            f[1] = s if s < a else a
            f[2] = max(f[1], e + delta if e >= b else a)


def corrupt(t, wire, fields, weights, truncate_body_bias=True):
    """Apply 1..3 faults to ``wire``; returns (new wire, [fault description, ...]).

    First a field is chosen (by ``weights``: field name -> weight, "h:*" = any other header), then a
    position inside it.  A description is {"kind", "field", "at", "n", "arg", "fired"}; ``fired`` is
    False when the operation left the bytes unchanged (e.g. an empty span).
    """
    fields = [list(f) for f in fields]
    nf = t.weighted([(5, 1), (3, 2), (2, 3)])
    descs = []
    for _ in range(nf):
        kind = t.weighted(KINDS)
        before = wire
        has_body = any(f[0] == "body" and f[2] > f[1] for f in fields)
        cut_value = False
        if kind == "truncate" and not has_body and t.draw(4) != 0:
            # without a body every truncation leaves an incomplete head (refused by the front-end): mostly
            # cut a value short instead (= drop from a position to the end of the field)
            kind, cut_value = "drop", True
        d = {"kind": kind, "field": None, "at": 0, "n": 0, "arg": None, "fired": False}
        if kind == "truncate":
            w = weights
            if truncate_body_bias and has_body and t.draw(8) != 0:
                w = {"body": 3, "part": 2, "path": 0, "query": 0, "h:*": 0}
                for f in fields:
                    if f[0].startswith("h:"):
                        w[f[0]] = 0
            f = _pick_field(t, fields, w, True)
            if f is not None:
                p = _pick_pos(t, wire, f[1], f[2], True)
                d.update(field=f[0], at=p - f[1], n=len(wire) - p)
                wire = wire[:p]
                fields = [[n_, min(s, p), min(e, p)] for n_, s, e in fields if s < p or (s == p and n_ == f[0])]
        elif kind == "bitflip":
            f = _pick_field(t, fields, weights, True)
            if f is not None:
                p = _pick_pos(t, wire, f[1], f[2], False)
                bit = t.draw(8)
                d.update(field=f[0], at=p - f[1], n=1, arg=bit)
                wire = wire[:p] + bytes([wire[p] ^ (1 << bit)]) + wire[p + 1:]
        elif kind == "drop":
            f = _pick_field(t, fields, weights, True)
            if f is not None:
                p = _pick_pos(t, wire, f[1], f[2], False)
                n = f[2] - p if cut_value else _span_len(t, wire, p, f[2])
                d.update(field=f[0], at=p - f[1], n=n)
                wire = wire[:p] + wire[p + n:]
                _shift(fields, p, p + n, -n)
        elif kind == "dup":
            f = _pick_field(t, fields, weights, True)
            if f is not None:
                p = _pick_pos(t, wire, f[1], f[2], False)
                n = _span_len(t, wire, p, f[2])
                times = t.weighted([(6, 1), (2, 2), (1, 40)])
                d.update(field=f[0], at=p - f[1], n=n, arg=times)
                ins = wire[p:p + n] * times
                wire = wire[:p + n] + ins + wire[p + n:]
                _shift(fields, p + n, p + n, len(ins))
        elif kind == "swap":
            f = _pick_field(t, fields, weights, True)
            if f is not None:
                p = _pick_pos(t, wire, f[1], f[2], False)
                a = _span_len(t, wire, p, f[2])
                b = _span_len(t, wire, p + a, f[2])
                d.update(field=f[0], at=p - f[1], n=a, arg=b)
                wire = wire[:p] + wire[p + a:p + a + b] + wire[p:p + a] + wire[p + a + b:]
        else:  # splice
            f = _pick_field(t, fields, weights, False)
            if f is not None:
                p = _pick_pos(t, wire, f[1], f[2], True)
                n = t.weighted([(5, 0), (2, 1), (2, -1)])
                if n < 0:
                    n = _span_len(t, wire, p, f[2])
                n = min(n, f[2] - p)
                pref = PREFERRED.get(f[0])
                if pref and t.draw(2) == 0:
                    idx = pref[t.draw(len(pref))]
                else:
                    idx = t.draw(len(DICTIONARY))
                payload = DICTIONARY[idx]
                d.update(field=f[0], at=p - f[1], n=n, arg=idx)
                wire = wire[:p] + payload + wire[p + n:]
                _shift(fields, p, p + n, len(payload) - n)
        d["fired"] = wire != before
        descs.append(d)
        n_ = len(wire)
        for f in fields:
            f[1] = min(max(f[1], 0), n_)
            f[2] = min(max(f[2], f[1]), n_)
    return wire, descs


_CL_LINE = re.compile(rb"^(content-length:[ \t]*)([0-9]+)([ \t]*\r?)$", re.I | re.M)


def reframe(wire):
    """Corruption at the source: the sender computes Content-Length from the bytes it actually sends.

    Returns the wire with its (single, still numeric) Content-Length replaced by the real body length, or
    None when there is no such header line / no complete head or when nothing would change.
    """
    m = _BLANK.search(wire)
    if m is None:
        return None
    head = wire[:m.start() + 1]
    found = _CL_LINE.findall(head)
    if len(found) != 1:
        return None
    n = len(wire) - m.end()
    new = _CL_LINE.sub(lambda mm: mm.group(1) + str(n).encode("ascii") + mm.group(3), head)
    if new == head:
        return None
    return new + wire[m.start() + 1:]


def payload_name(idx):
    v = DICTIONARY[idx]
    if v is DIGITS:
        return "<5000 digits>"
    if v is NEST:
        return "<'['*2000>"
    if v is MANY:
        return "<'&k=v'*1500>"
    return repr(v)


# ----------------------------------------------------------------------------------------------
# tolerant front-end
# ----------------------------------------------------------------------------------------------
class Rejected(Exception):
    def __init__(self, reason):
        super().__init__(reason)
        self.reason = reason


_TOKEN = re.compile(rb"[-!#$%&'*+.^_`|~0-9a-zA-Z]+\Z")
_TARGET_ASCII = re.compile(rb"[\x21-\x7e]+\Z")
_TARGET_LATIN = re.compile(rb"[\x21-\x7e\x80-\xff]+\Z")
_BLANK = re.compile(rb"\n\r?\n")
_BAD_VALUE = re.compile(rb"[\x00\r\n\x0b\x0c]")
_DIGITS = re.compile(rb"[0-9]+\Z")


class FrontendRequest:
    """What the server hands to the application. Duck-types sim.httpreq.AbstractRequest for the peers."""

    def __init__(self, iface, method, raw_path, query, headers, available, http_version):
        self.iface = iface
        self.method = method
        self.raw_path = raw_path          # bytes as on the wire
        self.query_bytes = query          # bytes as on the wire
        self.raw_headers = headers        # [(name bytes, value bytes)]
        self.http_version = http_version
        self.client = ("127.0.0.1", 50000)
        self.server = ("testserver", 80)
        self.scheme = "http"
        self.root_path = ""
        self.available = available
        self.declared = None              # int | None (no usable Content-Length)
        self.garbage_cl = False
        self.short = False                # fewer bytes arrived than declared: the client went away
        self.body = b""                   # the bytes the server delivers
        self._length()

    # -- body framing -------------------------------------------------------------------------
    def _length(self):
        cls = [v for k, v in self.raw_headers if k.lower() == b"content-length"]
        if not cls:
            self.body = b""
            return
        if len(set(cls)) > 1:
            raise Rejected("conflicting-content-length")
        v = cls[0]
        if _DIGITS.match(v) and len(v) <= 18:
            self.declared = int(v)
            if self.declared > len(self.available):
                self.short = True
                self.body = self.available
            else:
                self.body = self.available[:self.declared]
            return
        if self.iface == "asgi":
            raise Rejected("bad-content-length")
        # tolerant WSGI server (wsgiref): the raw string goes into CONTENT_LENGTH, wsgi.input gives what arrived
        self.garbage_cl = True
        self.body = self.available

    # -- lookups ------------------------------------------------------------------------------
    def header(self, name, default=None):
        n = name.lower().encode("latin-1")
        for k, v in self.raw_headers:
            if k.lower() == n:
                return v.decode("latin-1")
        return default

    @property
    def path(self):
        if self.iface == "asgi":
            return unquote(self.raw_path.decode("ascii"))
        return unquote_to_bytes(self.raw_path).decode("latin-1")

    # -- ASGI ---------------------------------------------------------------------------------
    def to_scope(self, extensions=None):
        scope = {
            "type": "http",
            "asgi": {"version": "3.0", "spec_version": "2.3"},
            "http_version": self.http_version,
            "method": self.method,
            "scheme": self.scheme,
            "path": unquote(self.raw_path.decode("ascii")),
            "raw_path": self.raw_path,
            "root_path": "",
            "query_string": self.query_bytes,
            "headers": [(k.lower(), v) for k, v in self.raw_headers],
            "client": self.client,
            "server": self.server,
        }
        if extensions is not None:
            scope["extensions"] = extensions
        return scope

    def script(self, cuts=()):
        """ASGI receive() script: the delivered body cut at ``cuts``; a short body ends in http.disconnect."""
        body = self.body
        pts = sorted(c for c in set(cuts) if 0 < c < len(body))
        pieces = [body[i:j] for i, j in zip([0] + pts, pts + [len(body)])]
        msgs = []
        for i, p in enumerate(pieces):
            msgs.append({"type": "http.request", "body": p, "more_body": self.short or i < len(pieces) - 1, "delay": 0.0})
        if self.short:
            msgs.append({"type": "http.disconnect", "delay": 0.0})
        return msgs

    # -- WSGI ---------------------------------------------------------------------------------
    def to_environ(self, wsgi_input, errors=None):
        env = {
            "REQUEST_METHOD": self.method,
            "SCRIPT_NAME": "",
            "PATH_INFO": unquote_to_bytes(self.raw_path).decode("latin-1"),
            "QUERY_STRING": self.query_bytes.decode("latin-1"),
            "SERVER_NAME": self.server[0],
            "SERVER_PORT": str(self.server[1]),
            "SERVER_PROTOCOL": "HTTP/" + self.http_version,
            "REMOTE_ADDR": self.client[0],
            "REMOTE_PORT": str(self.client[1]),
            "wsgi.version": (1, 0),
            "wsgi.url_scheme": self.scheme,
            "wsgi.input": wsgi_input,
            "wsgi.errors": errors,
            "wsgi.multithread": True,
            "wsgi.multiprocess": False,
            "wsgi.run_once": False,
        }
        for k, v in self.raw_headers:
            key = k.decode("ascii").upper().replace("-", "_")
            if key not in ("CONTENT_TYPE", "CONTENT_LENGTH"):
                key = "HTTP_" + key
            val = v.decode("latin-1")
            if key in env:
                env[key] = env[key] + "," + val
            else:
                env[key] = val
        return env


def frontend(wire, iface):
    """Parse corrupted wire bytes the way a tolerant real server of that family does.

    Returns a FrontendRequest or raises Rejected(reason) - the request never reaches the application.
    """
    # leading empty lines are skipped (RFC 7230 3.5)
    start = 0
    while wire[start:start + 2] == b"\r\n":
        start += 2
    while wire[start:start + 1] == b"\n":
        start += 1
    m = _BLANK.search(wire, start)
    if m is None:
        raise Rejected("incomplete-head")
    if m.start() - start > MAX_HEAD:
        raise Rejected("head-too-large")
    head = wire[start:m.start()]
    available = wire[m.end():]
    lines = head.split(b"\n")
    lines = [ln[:-1] if ln.endswith(b"\r") else ln for ln in lines]
    # -- request line
    parts = lines[0].split(b" ")
    if len(parts) != 3:
        raise Rejected("request-line")
    method, target, version = parts
    if not _TOKEN.match(method):
        raise Rejected("request-line")
    if version not in (b"HTTP/1.1", b"HTTP/1.0"):
        raise Rejected("request-line")
    if iface == "asgi":
        if not _TARGET_ASCII.match(target):
            raise Rejected("target-not-ascii" if _TARGET_LATIN.match(target) else "request-line")
    elif not _TARGET_LATIN.match(target) or b"\x7f" in target:
        raise Rejected("request-line")
    raw_path, _, query = target.partition(b"?")
    # -- header lines
    headers = []
    for ln in lines[1:]:
        if ln[:1] in (b" ", b"\t"):
            if not headers:
                raise Rejected("header-line")
            k, v = headers[-1]
            headers[-1] = (k, (v + b" " + ln.strip(b" \t")).strip(b" \t"))
            continue
        name, sep, value = ln.partition(b":")
        if not sep:
            raise Rejected("header-line-without-colon")
        if not _TOKEN.match(name):
            raise Rejected("header-name")
        headers.append((name, value.strip(b" \t")))
    for k, v in headers:
        if _BAD_VALUE.search(v):
            raise Rejected("header-value-control-char")
    return FrontendRequest(iface, method.decode("ascii"), raw_path, query, headers, available, version[5:].decode("ascii"))
