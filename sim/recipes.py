"""Response recipes: small JSON-like descriptions interpreted into baize.wsgi and baize.asgi.

A recipe describes *what the user writes* (class, constructor arguments, cookies); the same
recipe builds the WSGI and the ASGI object.  Header values supplied by the caller are
kept legal (Latin-1, no control characters, end-to-end headers only): an illegal caller
argument is not a baize defect.
"""
import asyncio
import contextvars
import enum

CURRENT_USER = contextvars.ContextVar("current_user", default="anonymous")


class AppStatus(int, enum.Enum):
    """applications often keep their status codes in an enum of their own"""
    OK = 200
    CREATED = 201
    NOT_FOUND = 404
    TEAPOT = 418

STATUSES = [200, 200, 201, 204, 299, 301, 404, 418, 500, 599, 600]
HDR_NAMES = ["X-A", "x-b", "Cache-Control", "X-Long-Header-Name", "Server", "cache-control", "content-type", "X-é".encode("latin-1").decode("latin-1")]
HDR_VALUES = ["1", "a b", "é", "x; y=z", "", "in\tner", "v" * 40]
TEXTS = ["", "hello", "héllo wörld", "中文", "line1\nline2", "\U0001f600", "a" * 100]
COOKIE_VALUES = ["v", "a b", "é", 'q"q', "x;y", "", "a,b=c", "x\r\nSet-Cookie: admin=1", "a\x0bb\x0c", "t\tab", "nul\x00", "\x7f\x80\xff", "back\\slash", "line\n"]
IRIS = ["/", "/a b", "/中文?q=é", "https://example.com/x?y=1#f", "/%20ok", "//other.example/p", "/a b"]
STATIC_PATHS = ["/a.txt", "/index.html", "/sub", "/sub/", "/sub/x.html", "/missing", "/目录", "/目录/", "/dîr", "/page", "/", "/empty.bin"]
STATIC_TREE = [("site5/a.txt", b"alpha"), ("site5/index.html", b"<h1>i</h1>"), ("site5/sub/index.html", b"<h1>s</h1>"), ("site5/sub/x.html", b"x"),
               ("site5/目录/index.html", b"<h1>cjk</h1>"), ("site5/dîr/index.html", b"<h1>latin</h1>"), ("site5/page.html", b"<p>p</p>"), ("site5/empty.bin", b"")]
DOWNLOAD_NAMES = [None, None, "a.txt", "a b.txt", "é.txt", "中文.txt", 'q"q.bin', "semi;colon.txt", "x.unknownext",
                  "report\r\nSet-Cookie: x=1.bin", "nul\x00.txt", "tab\tname.txt"]


def gen_headers(t, maxn=3):
    hs = {}
    for _ in range(t.draw(maxn + 1)):
        hs[t.choice(HDR_NAMES[:7])] = t.choice(HDR_VALUES)
    return hs


APPEND_VALUES = ["Origin", "no-transform", "é", "Origin\r\nSet-Cookie: sid=attacker", "nul\x00", "line\n"]


def gen_appends(t):
    """headers.append(name, value) calls made on the finished response object (the CORS-layer idiom): the name in any
    spelling, on a header the response may or may not carry already; a value with CR / LF / NUL is an illegal caller
    argument - refused with ValueError or never on the wire."""
    if t.draw(4):
        return []
    return [(t.choice(HDR_NAMES[:6] + ["Vary", "vary"]), t.choice(APPEND_VALUES)) for _ in range(1 + t.draw(2))]


def gen_cookies(t, maxn=3):
    cs = []
    for _ in range(t.draw(maxn + 1) if t.draw(2) else 0):
        c = {"key": t.choice(["a", "b", "sess", "k-1"]), "value": t.choice(COOKIE_VALUES)}
        if t.draw(3) == 0:
            c["max_age"] = t.choice([0, 60])
        if t.draw(4) == 0:
            c["httponly"] = True
        if t.draw(4) == 0:
            c["samesite"] = t.choice(["strict", "none"])
        if t.draw(6) == 0:
            c["delete"] = True
        cs.append(c)
    return cs


def gen_recipe(t, kinds=None, files=None):
    """files: list of (relpath, size) available in the SimFS for File recipes."""
    kinds = kinds or ["response", "text", "html", "json", "redirect", "stream", "sse", "file"]
    kind = t.choice([k for k in kinds if k != "file" or files])
    r = {"kind": kind, "status": t.choice(STATUSES) if t.draw(2) else 200, "headers": gen_headers(t), "cookies": gen_cookies(t)}
    r["appends"] = gen_appends(t)
    r["status_enum"] = t.draw(5) == 0
    if kind in ("text", "html"):
        r["content"] = t.choice(TEXTS)
        r["as_bytes"] = t.draw(3) == 0
        r["charset"] = t.choice([None, None, "utf-8", "utf-16", "gbk"]) if not r["as_bytes"] else None
        if r["charset"]:
            try:   # a charset that cannot encode the content is an illegal caller argument
                r["content"].encode(r["charset"])
            except UnicodeEncodeError:
                r["charset"] = None
        r["media_type"] = t.choice([None, None, "text/x-custom", "application/xml"])
    elif kind == "json":
        r["content"] = t.choice([None, 1, "é", [1, 2, {"a": "中"}], {"k": [True, None, 1.5]}, {}, ""])
        r["json_kwargs"] = t.choice([{}, {}, {"ensure_ascii": True}, {"indent": 2}])
    elif kind == "redirect":
        r["url"] = t.choice(IRIS)
        r["url_object"] = t.draw(3) == 0       # RedirectResponse also accepts a baize URL object
        r["status"] = t.choice([307, 307, 301, 302, 308, 303])
    elif kind == "staticapp":
        # the bundled static-file applications produce responses too (file, 304, redirect, handle_404)
        r["app"] = t.choice(["files", "pages"])
        r["path"] = t.choice(STATIC_PATHS)
        r["handle_404"] = t.draw(2) == 0
        r["status"] = 200
    elif kind == "stream":
        n = t.draw(5)
        r["chunks"] = [t.choice([b"", b"a", b"chunk-%d" % i, bytes(range(256)), b"x" * 1000]) for i in range(n)]
        r["content_type"] = t.choice(["application/octet-stream", "text/plain; charset=utf-8"])
        r["raise_at"] = None
        # the producer is an iterator OBJECT (a queue wrapper, a reader), not a generator: no close()/aclose(), no throw()
        r["iter_object"] = t.draw(4) == 0
    elif kind == "sse":
        n = t.draw(4)
        r["events"] = [t.choice([{"data": "d%d" % i}, {"event": "e", "data": "x\ny"}, {"id": "7", "retry": 10}, {}]) for i in range(n)]
        r["ping_interval"] = t.choice([1.0, 3.0])
        r["charset"] = t.choice(["utf-8", "utf-8", "latin-1"])
        r["delays"] = [t.choice([0.0, 0.0, 1.001]) for _ in range(n)]
        r["raise_at"] = None
        r["ctxvar"] = t.choice([None, None, "alice", "bob"])     # the view sets a context variable, the lazy generator reads it
    elif kind == "file":
        rel, size = t.choice(files)
        r["file"] = rel
        r["size"] = size
        r["status"] = 200
        r["content_type"] = t.choice([None, None, "text/x-thing", "application/octet-stream"])
        r["download_name"] = t.choice(DOWNLOAD_NAMES)
        r["chunk_size"] = t.choice([1, 2, 3, 7, 16, 4096, max(1, size), size + 1, max(1, size - 1), 262144])
    return r


def _apply_common(resp, r):
    for c in r["cookies"]:
        kw = {k: v for k, v in c.items() if k not in ("key", "value", "delete")}
        if c.get("delete"):
            resp.delete_cookie(c["key"])
        else:
            resp.set_cookie(c["key"], c["value"], **kw)
    for name, value in r.get("appends") or ():
        try:
            resp.headers.append(name, value)
        except ValueError:
            pass            # refused: the caller was told
    return resp


class ProducerError(Exception):
    pass


def build(r, iface, fs=None, hooks=None):
    """Return the response object of the given interface ('wsgi' | 'asgi')."""
    hooks = hooks or {}
    if iface == "wsgi":
        import baize.wsgi as M
    else:
        import baize.asgi as M
    k = r["kind"]
    headers = dict(r["headers"]) if r["headers"] else None
    if r.get("status_enum") and r["status"] in (200, 201, 404, 418) and k in ("response", "text", "html", "json", "stream", "sse"):
        r = dict(r, status=AppStatus(r["status"]))
    if k == "response":
        resp = M.Response(r["status"], headers)
    elif k in ("text", "html"):
        cls = M.PlainTextResponse if k == "text" else M.HTMLResponse
        content = r["content"].encode("utf-8") if r["as_bytes"] else r["content"]
        resp = cls(content, r["status"], headers, media_type=r["media_type"], charset=r["charset"])
    elif k == "json":
        resp = M.JSONResponse(r["content"], r["status"], headers, **r["json_kwargs"])
    elif k == "redirect":
        url = r["url"]
        if r.get("url_object"):
            from baize.datastructures import URL
            url = URL(url)
        resp = M.RedirectResponse(url, r["status"], headers)
    elif k == "staticapp":
        cls = M.Files if r["app"] == "files" else M.Pages
        h404 = M.PlainTextResponse("nothing here", 404) if r["handle_404"] else None
        return cls(fs.path("site5"), handle_404=h404)
    elif k == "stream":
        boom = hooks.get("boom") or ProducerError("producer")
        if iface == "wsgi":
            def gen():
                for i, c in enumerate(r["chunks"]):
                    if r["raise_at"] == i:
                        raise boom
                    yield c
                if r["raise_at"] == len(r["chunks"]):
                    raise boom
        else:
            async def gen():
                for i, c in enumerate(r["chunks"]):
                    if r["raise_at"] == i:
                        raise boom
                    yield c
                if r["raise_at"] == len(r["chunks"]):
                    raise boom
        it = gen()
        if r.get("iter_object"):
            if iface == "wsgi":
                class Plain:
                    def __init__(self, g):
                        self._n = g.__next__

                    def __iter__(self):
                        return self

                    def __next__(self):
                        return self._n()
            else:
                class Plain:
                    def __init__(self, g):
                        self._n = g.__anext__

                    def __aiter__(self):
                        return self

                    def __anext__(self):
                        return self._n()
            it = Plain(it)
        resp = M.StreamResponse(it, r["status"], headers, content_type=r["content_type"])
    elif k == "sse":
        boom = hooks.get("boom") or ProducerError("producer")
        sleep = hooks.get("sleep")
        if r.get("ctxvar"):
            CURRENT_USER.set(r["ctxvar"])

        def ev(e):
            e = dict(e)
            if r.get("ctxvar") and "data" in e:
                e["data"] = "%s for %s" % (e["data"], CURRENT_USER.get())
            return e

        if iface == "wsgi":
            def gen():
                for i, e in enumerate(r["events"]):
                    if r["raise_at"] == i:
                        raise boom
                    if r["delays"][i] and sleep:
                        sleep(r["delays"][i])
                    yield ev(e)
                if r["raise_at"] == len(r["events"]):
                    raise boom
        else:
            async def gen():
                for i, e in enumerate(r["events"]):
                    if r["raise_at"] == i:
                        raise boom
                    if r["delays"][i]:
                        await asyncio.sleep(r["delays"][i])
                    yield ev(e)
                if r["raise_at"] == len(r["events"]):
                    raise boom
        resp = M.SendEventResponse(gen(), r["status"], headers, ping_interval=r["ping_interval"], charset=r["charset"])
    elif k == "file":
        resp = M.FileResponse(fs.path(r["file"]), headers, content_type=r["content_type"], download_name=r["download_name"],
                              chunk_size=r["chunk_size"])
    else:
        raise ValueError(k)
    return _apply_common(resp, r)
