"""SimLoop: a virtual-time asyncio event loop driven by a Tape.

* time() is a virtual float; the selector stub never sleeps, it advances the
  clock to the next timer (or raises SimDeadlock when nothing can ever run).
* call_soon FIFO order is kept (asyncio documents it).
* call_at adds a seeded sub-microsecond jitter so that timers with equal
  deadlines fire in every order across seeds.
* optional tick: every iteration with ready callbacks advances the clock by a seeded sub-microsecond amount (a real loop
  takes time per iteration), which lets a timer fall due between two callbacks scheduled at the same instant.
* run_in_executor runs the function on the loop thread at a seeded later
  virtual instant (the functions baize hands over never touch loop state).
"""
import asyncio
from asyncio import base_events

EXEC_LAT = (0.0, 0.0, 0.0, 0.001, 0.01, 0.25)
# delay between the instant a pool worker has executed the job (its reads / side effects happen then) and the instant
# the awaiting task is resumed with the result
EXEC_DELIVER = (0.0, 0.0, 0.0, 0.0, 0.002, 0.3)


class SimDeadlock(Exception):
    pass


class SimTimeLimit(Exception):
    pass


class SimStepLimit(Exception):
    pass


class _Sel:
    def __init__(self, loop):
        self.loop = loop

    def select(self, timeout):
        loop = self.loop
        if timeout is None:
            raise SimDeadlock("no ready callback and no timer")
        if timeout > 0:
            loop._vnow += timeout
            if loop._vnow > loop.vcap:
                raise SimTimeLimit("virtual time cap %.1f exceeded" % loop.vcap)
        return []

    def close(self):
        pass


class SimLoop(base_events.BaseEventLoop):
    def __init__(self, tape, ctx=None, vcap=5000.0, step_cap=200000, exec_lat=EXEC_LAT, jitter=True, tick=None):
        super().__init__()
        self._vnow = 0.0
        self.tape = tape
        self.ctx = ctx
        self.vcap = vcap
        self.step_cap = step_cap
        self.steps = 0
        self.exec_lat = exec_lat
        self.jitter = jitter
        # a loop iteration takes time on a real machine: with tick = (choices of seconds) the clock moves by a seeded amount of that
        # order per iteration, so that a timer can fall due BETWEEN two callbacks that became ready at the same instant
        self.tick = tick
        self._selector = _Sel(self)
        self._clock_resolution = 1e-9
        self.errors = []
        self.exec_calls = 0
        self.set_exception_handler(self._on_error)

    def _on_error(self, loop, context):
        msg = context.get("message", "")
        exc = context.get("exception")
        self.errors.append((msg, type(exc).__name__ if exc is not None else None))

    def time(self):
        return self._vnow

    def _process_events(self, ev):
        pass

    def _write_to_self(self):
        pass

    def _run_once(self):
        self.steps += 1
        if self.steps > self.step_cap:
            raise SimStepLimit("step cap %d exceeded" % self.step_cap)
        if self.tick and self._ready:
            d = self.tick[self.tape.draw(len(self.tick))]
            if d:
                self._vnow += d
        super()._run_once()

    def call_at(self, when, callback, *args, context=None):
        if self.jitter:
            when += self.tape.draw(3) * 1e-7
        return super().call_at(when, callback, *args, context=context)

    def run_in_executor(self, executor, func, *args):
        fut = self.create_future()
        self.exec_calls += 1
        lat = self.exec_lat[self.tape.draw(len(self.exec_lat))]
        # a blocking call that takes a while (a user function marked with _sim_duration, possibly wrapped in partial(ctx.run, fn))
        probe = func
        for _ in range(3):
            d = getattr(probe, "_sim_duration", None)
            if d is not None:
                lat += d
                break
            a = getattr(probe, "args", None)
            if not a:
                break
            probe = a[0] if not hasattr(a[0], "run") or len(a) < 2 else a[1]
        if self.ctx is not None and lat:
            self.ctx.fault("executor_latency")
        state = {"ran": False}

        deliver = EXEC_DELIVER[self.tape.draw(len(EXEC_DELIVER))]

        def run():
            if state["ran"] or fut.cancelled():
                return
            state["ran"] = True
            try:
                res = func(*args)
            except BaseException as e:  # noqa
                if isinstance(e, (SystemExit, KeyboardInterrupt)):
                    raise
                outcome = (False, e)
            else:
                outcome = (True, res)

            def finish():
                if fut.cancelled():
                    return
                if outcome[0]:
                    fut.set_result(outcome[1])
                else:
                    fut.set_exception(outcome[1])

            if deliver:
                if self.ctx is not None:
                    self.ctx.fault("executor_result_delivered_late")
                self.call_later(deliver, finish)
            else:
                finish()

        def on_done(f):
            # The awaiting task was cancelled before the job completed.  A real pool drops a job that is still queued
            # and cannot recall one a worker has already picked up: that one completes (now), its result is discarded.
            # It never runs later than jobs submitted afterwards by the same task.
            if f.cancelled() and not state["ran"]:
                if self.tape.draw(2) == 1:
                    state["ran"] = True
                    if self.ctx is not None:
                        self.ctx.fault("executor_job_completed_after_cancel")
                    try:
                        func(*args)
                    except BaseException:  # noqa
                        pass

        fut.add_done_callback(on_done)
        self.call_later(lat, run)
        return fut


def run_sim(coro_fn, tape, ctx=None, **kw):
    """Run ``await coro_fn(loop)`` under a fresh SimLoop.

    Returns (result, loop). SimDeadlock/SimTimeLimit/SimStepLimit propagate.
    """
    loop = SimLoop(tape, ctx, **kw)
    asyncio.set_event_loop(None)
    try:
        try:
            result = loop.run_until_complete(coro_fn(loop))
        finally:
            if ctx is not None:
                ctx.sim_time += loop._vnow
        return result, loop
    finally:
        # cancel whatever is left so that close() is quiet; observations must be
        # snapshotted by the scenario *before* it returns.
        try:
            pending = [t for t in asyncio.all_tasks(loop) if not t.done()]
            for t in pending:
                t.cancel()
            if pending:
                loop._vnow_backup = loop._vnow
                loop.vcap = float("inf")
                loop.step_cap = loop.steps + 10000
                try:
                    loop.run_until_complete(asyncio.gather(*pending, return_exceptions=True))
                except BaseException:
                    pass
        finally:
            loop.close()


async def quiesce(n=8):
    for _ in range(n):
        await asyncio.sleep(0)
