import asyncio, random, json
from simloop_spike import SimLoop
from baize.asgi import Request, ClientDisconnect
from baize.exceptions import HTTPException
def mp(parts,b=b"bnd"):
    out=b""
    for n,v in parts: out+=b"--"+b+b"\r\nContent-Disposition: form-data; name=\""+n+b"\"\r\n\r\n"+v+b"\r\n"
    return out+b"--"+b+b"--\r\n"
async def scenario(rng, loop):
    kind=rng.choice(["json","urlenc","mp","other"])
    if kind=="json": B=json.dumps({"a":[1,2,rng.randint(0,9)]}).encode(); ct="application/json"
    elif kind=="urlenc": B=b"a=1&b=%d"%rng.randint(0,9); ct="application/x-www-form-urlencoded"
    elif kind=="mp": B=mp([(b"a",b"1"),(b"b",b"xyz")]); ct="multipart/form-data; boundary=bnd"
    else: B=bytes(rng.randrange(256) for _ in range(rng.randint(0,20))); ct="text/plain"
    k=rng.randint(0,4); cuts=sorted(rng.randint(0,len(B)) for _ in range(k)); pieces=[B[i:j] for i,j in zip([0]+cuts,cuts+[len(B)])]
    msgs=[{"type":"http.request","body":p,"more_body":i<len(pieces)-1} for i,p in enumerate(pieces)]
    disc=rng.random()<0.25
    if disc:
        j=rng.randint(0,len(msgs)-1); msgs=msgs[:j]; 
        for m in msgs: m["more_body"]=True
        msgs.append({"type":"http.disconnect"})
    calls=[0]; delivered=[0]
    async def receive():
        calls[0]+=1
        lat=rng.choice([0,0,0.1,0.5])
        if lat: await asyncio.sleep(lat)
        if not msgs: 
            await asyncio.sleep(1e9)
        delivered[0]+=1
        return msgs.pop(0)
    total=len(msgs)
    req=Request({"type":"http","method":"POST","headers":[(b"content-type",ct.encode())]}, receive)
    results=[]
    async def prog(tid, ops):
        for op,arg,dl in ops:
            if dl: await asyncio.sleep(dl)
            try:
                if op=="body": v=await req.body
                elif op=="json": v=await req.json
                elif op=="form": v=(await req.form).multi_items()
                elif op=="stream":
                    v=[]; 
                    async for c in req.stream():
                        v.append(c)
                        if arg is not None and len(v)>=arg: break
                elif op=="close": v=await req.close()
                results.append((tid,op,arg,"ok",v))
            except (RuntimeError,ClientDisconnect,HTTPException) as e:
                results.append((tid,op,arg,"exc",type(e).__name__,str(e)))
    nt=rng.randint(1,3)
    progs=[[ (rng.choice(["body","json","form","stream","stream","close"]), rng.choice([None,None,1,2]), rng.choice([0,0,0.1,0.3])) for _ in range(rng.randint(1,4))] for _ in range(nt)]
    tasks=[asyncio.ensure_future(prog(i,p)) for i,p in enumerate(progs)]
    done,pend=await asyncio.wait(tasks, timeout=1000)
    bad=[]
    if pend: bad.append(("hang",[progs]))
    for t in done:
        if t.exception(): bad.append(("escaped",repr(t.exception())))
    for r in results:
        if r[3]=="ok":
            if r[1]=="body" and r[4]!=B: bad.append(("body",r,B))
            if r[1]=="stream" and r[2] is None and b"".join(r[4])!=B: bad.append(("stream",r,B))
            if r[1]=="stream" and r[2] is not None and not B.startswith(b"".join(r[4])) : bad.append(("streamprefix",r,B))
            if disc and r[1] in("body","json") : bad.append(("disc-but-ok",r))
    if calls[0]>total: bad.append(("overread",calls[0],total))
    return bad, kind, progs, results
viol=0
for seed in range(20000):
    rng=random.Random(seed); loop=SimLoop(rng)
    try: bad,kind,progs,results=loop.run_until_complete(scenario(rng,loop))
    except Exception as e: bad=[("crash",repr(e))]; kind=progs=results=None
    finally: loop.close()
    if bad:
        viol+=1
        if viol<=6: print(seed,kind,bad[:2],progs,"\n   ",results)
print("violations",viol)
