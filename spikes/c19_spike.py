import random, re
from baize.responses import build_bytes_from_sse
def es_parse(text):
    """WHATWG event stream interpretation. Returns list of effects: ('event', type, data, lastid) and tracks retry."""
    if text.startswith("﻿"): text=text[1:]
    lines=re.split(r"\r\n|\r|\n", text)
    # last element after final terminator is incomplete line -> discard
    lines=lines[:-1]
    data=[]; etype=""; lastid=""; retry=None; out=[]; idbuf=None
    for line in lines:
        if line=="":
            if idbuf is not None: lastid=idbuf
            if data:
                d="\n".join(data)
                out.append(("msg", etype or "message", d, lastid, retry))
            else:
                out.append(("nodispatch", etype, None, lastid, retry))
            data=[]; etype=""; idbuf=None
            continue
        if line.startswith(":"): continue
        if ":" in line:
            f,v=line.split(":",1)
            if v.startswith(" "): v=v[1:]
        else: f,v=line,""
        if f=="event": etype=v
        elif f=="data": data.append(v)
        elif f=="id":
            if "\0" not in v: idbuf=v
        elif f=="retry":
            if v.isascii() and v.isdigit(): retry=int(v)
    return out
def ref_lines(d, mode):
    parts=re.split(r"\r\n|\r|\n", d)
    if mode=="term" and parts and parts[-1]=="": parts=parts[:-1]
    return parts
def expected(ev):
    outs=[]
    for mode in ("sep","term"):
        if "data" in ev:
            ls=ref_lines(ev["data"],mode)
            outs.append(("\n".join(ls)) if ls else None)
        else: outs.append(None)
    return outs
rng=random.Random(3)
SAFE=["a","b"," ",":","\n","\r","\r\n","é","中","x y",""]
EXOTIC=[" ","\u0085","\x0b","\x0c","\x1c"," "]
def gen(alpha):
    ev={}
    if rng.random()<0.8: ev["data"]="".join(rng.choice(alpha) for _ in range(rng.randint(0,5)))
    if rng.random()<0.4: ev["event"]=rng.choice(["e","e:f","é"])
    if rng.random()<0.3: ev["id"]=rng.choice(["1","a b"])
    if rng.random()<0.3: ev["retry"]=rng.randint(0,9999)
    return ev
for name,alpha in (("safe",SAFE),("exotic",SAFE+EXOTIC)):
    bad=0
    for _ in range(20000):
        evs=[gen(alpha) for _ in range(rng.randint(1,3))]
        wire=b""
        for e in evs:
            wire+=build_bytes_from_sse(dict(e),"utf-8")
            if rng.random()<0.3: wire+=b": ping\n\n"
        got=[g for g in es_parse(wire.decode("utf-8")) if not (g[0]=="nodispatch" and g[1]=="" )]
        # compare per event
        ok=True; gi=0
        blocks=es_parse(wire.decode("utf-8"))
        # remove ping blocks: nodispatch with no fields changes -> ambiguous with dataless events; align by count
        effs=[b for b in blocks]
        # simple alignment: each event yields exactly one block; pings yield one nodispatch block with etype ""
        # rebuild by re-encoding separately
        for e in evs:
            bl=es_parse(build_bytes_from_sse(dict(e),"utf-8").decode())
            exp=expected(e)
            if len(bl)!=1: ok=False; break
            k,etype,d,lid,rt=bl[0]
            if k=="msg":
                if d not in exp or etype!=(e.get("event") or "message"): ok=False
            else:
                if not (None in exp or "" in exp): ok=False
            if "id" in e and lid!=e["id"]: ok=False
            if "retry" in e and rt!=e["retry"]: ok=False
            if not ok: 
                bad+=1
                if bad<4: print(name,"MISMATCH",e,bl,exp)
                break
    print(name,"bad",bad)
