import asyncio, heapq, random, time as _time, hashlib
from asyncio import base_events, events

class _Sel:
    def __init__(self, loop): self.loop=loop
    def select(self, timeout):
        loop=self.loop
        if timeout is None:
            raise Deadlock("no ready callbacks, no timers")
        if timeout>0:
            loop._vnow += timeout
        return []
    def close(self): pass
class Deadlock(Exception): pass

class SimLoop(base_events.BaseEventLoop):
    def __init__(self, rng):
        super().__init__()
        self._vnow=0.0; self.rng=rng; self._selector=_Sel(self); self._clock_resolution=1e-9
        self.trace=[]
    def time(self): return self._vnow
    def _process_events(self, ev): pass
    def _write_to_self(self): pass
    def run_in_executor(self, executor, func, *args):
        fut=self.create_future()
        d=self.rng.choice([0,0,0.001,0.01])
        def run():
            if fut.cancelled(): return
            try: fut.set_result(func(*args))
            except BaseException as e: fut.set_exception(e)
        self.call_later(d, run); return fut
    def call_at(self, when, cb, *a, context=None):
        # jitter to break ties among equal deadlines
        when += self.rng.randrange(0,3)*1e-7
        return super().call_at(when, cb, *a, context=context)

async def scenario(rng, loop, log):
    from baize.asgi import SendEventResponse
    n=rng.randint(0,5); P=rng.choice([1.0,2.0])
    delays=[rng.choice([0,0,0.5,1.0,1.5,2.0,3.0]) for _ in range(n)]
    cleanup=[]
    async def gen():
        try:
            for i,d in enumerate(delays):
                if d: await asyncio.sleep(d)
                yield {"data":str(i)}
        finally:
            cleanup.append(loop.time())
    disc_at=rng.choice([None,0,0.5,1.0,2.5,4.0])
    sent=[]
    disc=loop.create_future()
    if disc_at is not None: loop.call_later(disc_at, lambda: disc.done() or disc.set_result(None))
    async def receive():
        await disc
        return {"type":"http.disconnect"}
    async def send(m):
        lat=rng.choice([0,0,0,0.2,1.0])
        if lat: await asyncio.sleep(lat)
        sent.append((round(loop.time(),3), m["type"], m.get("body"), m.get("more_body")))
    r=SendEventResponse(gen(), ping_interval=P)
    t0=loop.time()
    await r({"type":"http","method":"GET","headers":[]}, receive, send)
    t1=loop.time()
    # quiesce
    for _ in range(10): await asyncio.sleep(0)
    pend=[t for t in asyncio.all_tasks(loop) if t is not asyncio.current_task()]
    log.append((n,P,delays,disc_at,t1,len(sent),cleanup,len(pend)))
    return sent

def run(seed):
    rng=random.Random(seed)
    loop=SimLoop(rng); log=[]
    try:
        sent=loop.run_until_complete(scenario(rng,loop,log))
    finally:
        loop.close()
    return log, sent
if __name__=="__main__":
    t=_time.time(); N=3000; hs=set()
    for s in range(N):
        log,sent=run(s)
        h=hashlib.sha1(repr((log,sent)).encode()).hexdigest(); hs.add(h)
        log2,sent2=run(s)
        assert (log,sent)==(log2,sent2), s
    dt=_time.time()-t
    print("runs",2*N,"in",round(dt,2),"s ->",round(2*N/dt),"runs/s; distinct",len(hs))
    print(run(7)[0]); print(run(7)[1][:6])
