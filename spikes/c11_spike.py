import asyncio, random, gc
from simloop_spike import SimLoop, Deadlock
from baize.asgi import WebSocket, WebSocketDisconnect, WebSocketState as S
ORDER={S.CONNECTING:0,S.CONNECTED:1,S.DISCONNECTED:2}
async def scenario(rng, loop):
    k=rng.randint(0,3)
    frames=[("text","t%d"%i) if rng.random()<0.5 else ("bytes",b"b%d"%i) for i in range(k)]
    script=[{"type":"websocket.connect"}]+[{"type":"websocket.receive",f[0]:f[1]} for f in frames]+[{"type":"websocket.disconnect","code":1001}]
    cut=rng.randint(1,len(script)-1)
    if rng.random()<0.4: script=script[:cut]+[{"type":"websocket.disconnect","code":1006}]
    total=len(script); recv_calls=[0]; disc_delivered=[False]; recv_after_disc=[0]; fwd=[]
    async def receive():
        recv_calls[0]+=1
        if disc_delivered[0]: recv_after_disc[0]+=1
        lat=rng.choice([0,0,0.1])
        if lat: await asyncio.sleep(lat)
        if not script: await asyncio.sleep(1e9)
        m=script.pop(0)
        if m["type"]=="websocket.disconnect": disc_delivered[0]=True
        return m
    async def send(m): fwd.append(dict(m))
    ws=WebSocket({"type":"websocket","headers":[]}, receive, send)
    # model
    cs=0; as_=0; pos=0  # pos: index into original script
    orig=list(script)
    ops=[rng.choice(["accept","receive","receive_text","receive_bytes","send_text","send_bytes","close","raw_accept","raw_send","raw_close","raw_bogus","accept"]) for _ in range(rng.randint(1,8))]
    bad=[]; hist=[]
    for op in ops:
        n_f=len(fwd); n_r=recv_calls[0]; st0=(ORDER[ws.client_state],ORDER[ws.application_state])
        try:
            if op=="accept": r=await ws.accept()
            elif op=="receive": r=await ws.receive()
            elif op=="receive_text": r=await ws.receive_text()
            elif op=="receive_bytes": r=await ws.receive_bytes()
            elif op=="send_text": r=await ws.send_text("x")
            elif op=="send_bytes": r=await ws.send_bytes(b"x")
            elif op=="close": r=await ws.close()
            elif op=="raw_accept": r=await ws.send({"type":"websocket.accept"})
            elif op=="raw_send": r=await ws.send({"type":"websocket.send","text":"r"})
            elif op=="raw_close": r=await ws.send({"type":"websocket.close"})
            elif op=="raw_bogus": r=await ws.send({"type":"websocket.bogus"})
            out=("ok",r)
        except BaseException as e: out=("exc",type(e).__name__)
        hist.append((op,out,len(fwd)-n_f,recv_calls[0]-n_r))
        st1=(ORDER[ws.client_state],ORDER[ws.application_state])
        if st1[0]<st0[0] or st1[1]<st0[1]: bad.append(("state-back",op,st0,st1))
    # grammar of forwarded
    types=[m["type"].split(".")[1] for m in fwd]
    import re
    if not re.fullmatch(r"(close|accept(,send)*(,close)?)?", ",".join(types)): bad.append(("grammar",types))
    if recv_after_disc[0]: bad.append(("recv-after-disc",recv_after_disc[0]))
    # frames in order exactly once
    got=[h[1][1] for h in hist if h[0] in("receive_text","receive_bytes") and h[1][0]=="ok"]
    got+= []
    raw=[h[1][1] for h in hist if h[0]=="receive" and h[1][0]=="ok"]
    # any exception with forwarding?
    for h in hist:
        if h[1][0]=="exc" and h[2]>0: bad.append(("raised-but-forwarded",h))
    return bad,hist,types
viol=0
for seed in range(30000):
    rng=random.Random(seed); loop=SimLoop(rng)
    try: bad,hist,types=loop.run_until_complete(scenario(rng,loop))
    except Deadlock: bad=[("deadlock",)]; hist=types=None
    finally: loop.close()
    if bad:
        viol+=1
        if viol<=6: print(seed,bad,hist,types)
print("violations",viol)
