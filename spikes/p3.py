import asyncio, io, os, tempfile, traceback
from baize import wsgi, asgi
from baize.exceptions import HTTPException

def env(method="GET", path="/", qs="", headers=None, body=b""):
    e = {"REQUEST_METHOD":method,"SCRIPT_NAME":"","PATH_INFO":path,"QUERY_STRING":qs,"SERVER_NAME":"h","SERVER_PORT":"80","wsgi.url_scheme":"http","wsgi.input":io.BytesIO(body),"SERVER_PROTOCOL":"HTTP/1.1"}
    for k,v in (headers or {}).items():
        k2=k.upper().replace("-","_")
        if k2 not in ("CONTENT_TYPE","CONTENT_LENGTH"): k2="HTTP_"+k2
        e[k2]=v
    return e
def scope(method="GET", path="/", qs=b"", headers=None):
    return {"type":"http","method":method,"path":path,"root_path":"","query_string":qs,"scheme":"http","server":("h",80),"headers":[(k.lower().encode("latin-1"),v.encode("latin-1")) for k,v in (headers or {}).items()]}
def recv(body):
    msgs=[{"type":"http.request","body":body,"more_body":False}]
    async def r():
        return msgs.pop(0) if msgs else {"type":"http.disconnect"}
    return r
def t(label, f):
    try:
        v=f(); 
        if asyncio.iscoroutine(v): v=asyncio.run(v)
        print("OK  ", label, repr(v)[:60])
    except HTTPException as e: print("HTTP", label, e.status_code)
    except BaseException as e: print("BAD ", label, type(e).__name__, str(e)[:70])

t("json invalid utf8 w", lambda: wsgi.Request(env(headers={"content-type":"application/json"},body=b'"\xff"')).json)
async def aj(h,b,attr="json"):
    return await getattr(asgi.Request(scope(headers=h), recv(b)),attr)
t("json invalid utf8 a", lambda: aj({"content-type":"application/json"},b'"\xff"'))
t("json charset nonsense", lambda: wsgi.Request(env(headers={"content-type":"application/json; charset=nonsense"},body=b'1')).json)
t("json huge int", lambda: wsgi.Request(env(headers={"content-type":"application/json"},body=b'1'*5000)).json)
t("json deep", lambda: wsgi.Request(env(headers={"content-type":"application/json"},body=b'['*100000)).json)
t("form urlenc charset nonsense", lambda: wsgi.Request(env(headers={"content-type":"application/x-www-form-urlencoded; charset=nonsense"},body=b'a=1')).form)
t("form urlenc utf8 bad", lambda: wsgi.Request(env(headers={"content-type":"application/x-www-form-urlencoded; charset=utf-8"},body=b'a=\xff')).form)
mp=b'--b\r\nContent-Disposition form-data\r\n\r\nx\r\n--b--\r\n'
t("mp header no colon", lambda: wsgi.Request(env(headers={"content-type":"multipart/form-data; boundary=b"},body=mp)).form)
mp=b'--b\r\nX: y\r\n\r\nx\r\n--b--\r\n'
t("mp no content-disposition", lambda: wsgi.Request(env(headers={"content-type":"multipart/form-data; boundary=b"},body=mp)).form)
mp=b'--b\r\nContent-Disposition: form-data; name="a"\r\n\r\nx\r\n--b--\r\n'
t("mp charset nonsense", lambda: wsgi.Request(env(headers={"content-type":"multipart/form-data; boundary=b; charset=nonsense"},body=mp)).form.multi_items())
t("mp empty boundary", lambda: wsgi.Request(env(headers={"content-type":"multipart/form-data; boundary="},body=mp)).form.multi_items())
t("mp truncated", lambda: wsgi.Request(env(headers={"content-type":"multipart/form-data; boundary=b"},body=mp[:-12])).form.multi_items())
t("wsgi url non-utf8 path", lambda: wsgi.Request(env(path="/\xff")).url)
t("wsgi url bad qs", lambda: wsgi.Request(env(qs="a=\xff")).url)
t("asgi url bad qs", lambda: asgi.Request(scope(qs=b"a=\xff")).url)
t("url bad host", lambda: wsgi.Request(env(headers={"host":"[x"})).url)
t("referer bad", lambda: wsgi.Request(env(headers={"referer":"http://[x"})).referrer)
t("date weird", lambda: wsgi.Request(env(headers={"date":"Mon, 01 Jan 99999 00:00:00 GMT"})).date)
t("date weird2", lambda: wsgi.Request(env(headers={"date":"0"})).date)
t("content-length huge", lambda: wsgi.Request(env(headers={"content-length":"9"*5000})).content_length)
t("cookie", lambda: wsgi.Request(env(headers={"cookie":'a="\\777\\"; b=\; c'})).cookies)
t("accept", lambda: wsgi.Request(env(headers={"accept":';;;,,/,"'})).accepts("text/html"))
t("client port", lambda: wsgi.Request({**env(),"REMOTE_ADDR":"1","REMOTE_PORT":"x"}).client)

d=tempfile.mkdtemp(); open(d+"/file.txt","w").write("hi"); os.mkdir(d+"/sub")
def wcall(app, e):
    out=[]
    def sr(s,h,ei=None): out.append((s,h))
    body=b"".join(app(e,sr)); return out, body
for cls in ("Files","Pages"):
    for p in ["/file.txt/x","/a\x00b","/"+"a"*300,"/sub","/sub/","/../x","/file.txt"]:
        t(f"w {cls} {p[:12]!r}", lambda: wcall(getattr(wsgi,cls)(d), env(path=p))[0][0][0])
for h,v in [("if-modified-since","Mon, 01 Jan 0001 00:00:00"),("if-modified-since","x"),("if-none-match",'"'),("range","bytes="+"9"*5000+"-"),("range","bytes=0-"+"9"*5000),("range","bytes=\xff"),("if-range","x")]:
    t(f"w Files hdr {h}={v[:20]!r}", lambda: wcall(wsgi.Files(d), env(path="/file.txt",headers={h:v}))[0][0][0])
r=wsgi.Router(("/{d:date}",wsgi.PlainTextResponse("x")),("/i/{i:int}",wsgi.PlainTextResponse("x")),("/d/{i:decimal}",wsgi.PlainTextResponse("x")))
for p in ["/2021-13-45","/i/"+"9"*5000,"/d/1x2"]:
    t(f"router {p[:14]}", lambda: wcall(r, env(path=p))[0][0][0])
