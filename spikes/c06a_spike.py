import asyncio, random, gc
from simloop_spike import SimLoop, Deadlock
from baize.asgi import SendEventResponse, StreamResponse
class Boom(Exception): pass
class SendErr(OSError): pass
async def scenario(rng, loop):
    sse=rng.random()<0.6
    n=rng.randint(0,5); P=rng.choice([1.0,2.0])
    delays=[rng.choice([0,0,0.5,1.0,1.0,1.5,2.0,3.0]) for _ in range(n)]
    boom_at=rng.choice([None,None,None]+list(range(n+1)))
    cdelay=rng.choice([0,0,0.3])
    st={"started":0,"cleanup":0}
    async def gen():
        st["started"]+=1
        try:
            for i,d in enumerate(delays):
                if boom_at==i: raise Boom(i)
                if d: await asyncio.sleep(d)
                yield ({"data":str(i)} if sse else str(i).encode())
            if boom_at==n: raise Boom(n)
        finally:
            st["cleanup"]+=1
            if cdelay: await asyncio.sleep(cdelay)
    disc_at=rng.choice([None,0,0.5,1.0,1.0,2.0,2.5,4.0])
    raising=rng.random()<0.3
    Lset=[0,0,0,0.2,1.0]
    sent=[]; disc=loop.create_future(); tdisc=[None]
    def fire():
        if not disc.done(): disc.set_result(None); tdisc[0]=loop.time()
    if disc_at is not None: loop.call_later(disc_at, fire)
    async def receive():
        await disc
        return {"type":"http.disconnect"}
    async def send(m):
        lat=rng.choice(Lset)
        if lat: await asyncio.sleep(lat)
        if raising and disc.done(): raise SendErr()
        sent.append((loop.time(), m))
    r=(SendEventResponse(gen(), ping_interval=P) if sse else StreamResponse(gen()))
    exc=None
    try: await r({"type":"http","method":"GET","headers":[]}, receive, send)
    except BaseException as e: exc=e
    t1=loop.time()
    await asyncio.sleep(cdelay+0.001)
    for _ in range(5): await asyncio.sleep(0)
    pend=[t for t in asyncio.all_tasks(loop) if t is not asyncio.current_task() and not t.done()]
    bad=[]
    if st["started"] and st["cleanup"]!=1: bad.append(("cleanup",st))
    if pend: bad.append(("pending",len(pend)))
    if exc is not None and not isinstance(exc,(Boom,SendErr)): bad.append(("exc",repr(exc)))
    if isinstance(exc,SendErr) and not raising: bad.append(("senderr?",))
    bodies=[m.get("body",b"") for t,m in sent if m["type"]=="http.response.body"]
    data=b"".join(bodies).replace(b": ping\n\n",b"")
    exp_all=[(b"data: %d\n\n"%i if sse else b"%d"%i) for i in range(n if boom_at is None else boom_at)]
    ok=any(data==b"".join(exp_all[:k]) for k in range(len(exp_all)+1))
    if not ok: bad.append(("delivery",data,exp_all))
    if disc_at is None and exc is None and data!=b"".join(exp_all): bad.append(("incomplete",data))
    if tdisc[0] is not None and sse and t1>tdisc[0]+P+3*1.0+cdelay+0.01 and t1>tdisc[0]: bad.append(("late",tdisc[0],t1,P))
    # protocol
    types=[m["type"] for t,m in sent]
    if exc is None:
        if types[:1]!=["http.response.start"] or sent[-1][1].get("more_body",False) or any(not m.get("more_body") for t,m in sent[1:-1]): bad.append(("proto",types))
    return bad,(sse,n,P,delays,boom_at,cdelay,disc_at,raising),t1
viol=0
gc.disable()
for seed in range(30000):
    rng=random.Random(seed); loop=SimLoop(rng); errs=[]
    loop.set_exception_handler(lambda l,c: errs.append(c.get("message")))
    try: bad,par,t1=loop.run_until_complete(scenario(rng,loop))
    except Deadlock as e: bad=[("deadlock",)]; par=None
    finally: loop.close()
    if errs: bad.append(("loop-errs",errs))
    if bad:
        viol+=1
        if viol<=8: print(seed,par,bad)
print("violations",viol)
