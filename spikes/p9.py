import io, itertools, random
from baize.datastructures import Cookie
from baize import wsgi
def rt(pairs):
    hdr="; ".join(str(Cookie(n,v)).split("; ")[0] if False else sc for sc in [])
    parts=[]
    for n,v in pairs:
        s=str(Cookie(n,v)); 
        assert s.isascii(), s
        nv=s.split(";",1)[0]  # jar: up to first ';'
        parts.append(nv)
    e={"REQUEST_METHOD":"GET","HTTP_COOKIE":"; ".join(parts),"wsgi.input":io.BytesIO()}
    return wsgi.Request(e).cookies
bad=[]
for c in range(256):
    for v in (chr(c), "a"+chr(c)+"b", chr(c)*2, " "+chr(c), chr(c)+" "):
        try:
            got=rt([("k",v)]).get("k")
        except Exception as ex: got=("EXC",type(ex).__name__)
        if got!=v: bad.append((v,got,str(Cookie("k",v)).split("; path")[0]))
print(len(bad)); print(bad[:20])
rng=random.Random(0)
alpha=[chr(c) for c in range(256)]
b2=0
for _ in range(20000):
    pairs=[("n%d"%i,"".join(rng.choice(alpha) for _ in range(rng.randint(0,6)))) for i in range(rng.randint(1,3))]
    got=rt(pairs)
    if any(got.get(n)!=v for n,v in pairs):
        b2+=1
        if b2<5: print(pairs,got)
print("multi bad",b2)
