import sys; sys.path.insert(0, sys.argv[1])
import baize; print(baize.__file__)
from simthreads_spike import *
import simthreads_spike as S
bad=0; N=4000
for seed in range(N):
    res,par,snap,st,sw,tr=scenario(seed)
    n,delays,P,take,cdel=par
    ok = res=="ok" and snap["closed_at"] is not None and snap["cleanup"]==1
    if not ok:
        bad+=1
        if bad<5: print(seed,res,par,snap,st)
print("bad",bad,"of",N)
