import os, time
from baize.multipart import *
b=b"bnd"
d=MultipartDecoder(b,"utf-8")
d.receive_data(b'--bnd\r\nContent-Disposition: form-data; name="f"; filename="x"\r\n\r\n')
print(type(d.next_event()).__name__, type(d.next_event()).__name__)
d.receive_data(b"\r"); 
mx=0; out=0
for i in range(200):
    d.receive_data(b"x"*1000)
    e=d.next_event()
    if isinstance(e,Data): out+=len(e.data)
    mx=max(mx,len(d.buffer))
print("leading CR: max buffer",mx,"emitted",out)
d=MultipartDecoder(b,"utf-8")
d.receive_data(b'--bnd\r\nContent-Disposition: form-data; name="f"; filename="x"\r\n\r\n'); d.next_event(); d.next_event()
mx=0; out=0
for i in range(200):
    d.receive_data(b"x"*1000)
    e=d.next_event()
    if isinstance(e,Data): out+=len(e.data)
    mx=max(mx,len(d.buffer))
print("no CR: max buffer",mx,"emitted",out)
# cookie tz
from baize.wsgi import Response
for tz in ["UTC","Asia/Shanghai","America/New_York"]:
    os.environ["TZ"]=tz; time.tzset()
    r=Response(); r.set_cookie("a","b",expires=3600); 
    print(tz, str(r.cookies[0]), "| now gmt", time.strftime("%H:%M", time.gmtime()))
