import random, itertools
from baize.multipart import *
from baize.multipart_helper import parse_stream
from baize.datastructures import UploadFile
def encode(parts, boundary, pre=b"", epi=b""):
    out=bytearray(pre)
    if pre: out+=b"\r\n"
    for name, fn, ct, content in parts:
        out+=b"--"+boundary+b"\r\n"
        cd='form-data; name="%s"'%name
        if fn is not None: cd+='; filename="%s"'%fn
        out+=("Content-Disposition: "+cd+"\r\n").encode()
        if ct: out+=("Content-Type: "+ct+"\r\n").encode()
        out+=b"\r\n"+content+b"\r\n"
    out+=b"--"+boundary+b"--\r\n"+epi
    return bytes(out)
def events(body, boundary, cuts):
    d=MultipartDecoder(boundary,"utf-8"); ev=[]
    pos=0
    for c in list(cuts)+[len(body)]:
        d.receive_data(body[pos:c]); pos=c
        while True:
            e=d.next_event()
            if isinstance(e,NeedData): break
            ev.append(e)
            if isinstance(e,Epilogue): break
    d.receive_data(None)
    try:
        while True:
            e=d.next_event(); ev.append(e)
            if isinstance(e,Epilogue): break
    except Exception as ex: ev.append(("EXC",type(ex).__name__))
    return ev
def norm(ev):
    out=[]; cur=None
    for e in ev:
        if isinstance(e,(Field,File)):
            cur=[type(e).__name__, e.name, getattr(e,"filename",None), dict(e.headers), b""]; out.append(cur)
        elif isinstance(e,Data): cur[4]+=e.data; 
        elif isinstance(e,Preamble): out.append(["pre",e.data])
        elif isinstance(e,Epilogue): out.append(["epi",e.data])
        else: out.append(e)
    return out
rng=random.Random(1)
alpha=[b"\r",b"\n",b"-",b"--",b"b",b"x",b"\r\n",b"\r\n--",b"\r\n--b",b"--bx"]
bad=0
for it in range(60000):
    boundary=rng.choice([b"b",b"bnd",b"----x"])
    parts=[]
    for _ in range(rng.randint(0,3)):
        content=b"".join(rng.choice(alpha) for _ in range(rng.randint(0,6)))
        if b"--"+boundary in content: continue
        parts.append((rng.choice(["a","b"]), rng.choice([None,"f.txt"]), None, content))
    body=encode(parts,boundary, pre=rng.choice([b"",b"pre"]), epi=rng.choice([b"",b"epi"]))
    ref=norm(events(body,boundary,[]))
    exp=[[("File" if fn is not None else "Field"),n,fn,c] for n,fn,ct,c in parts]
    got=[[x[0],x[1],x[2],x[4]] for x in ref if x[0] in("File","Field")]
    if got!=exp:
        bad+=1
        if bad<6: print("WHOLE MISMATCH", boundary, body, got, exp)
        continue
    k=rng.randint(0,min(8,len(body)))
    cuts=sorted(rng.randint(0,len(body)) for _ in range(k))
    if rng.random()<0.2: cuts=list(range(1,len(body)))
    g=norm(events(body,boundary,cuts))
    g=[x for x in g if x[0] in ("File","Field")]; ref2=[x for x in ref if x[0] in ("File","Field")]
    if g!=ref2:
        bad+=1
        if bad<6: print("CHUNK MISMATCH", boundary, body, cuts, g, ref)
print("bad",bad)
