import asyncio, os, tempfile, io
from baize import asgi, wsgi
d=tempfile.mkdtemp(); fp=d+"/f.bin"; data=bytes(range(256))*4; open(fp,"wb").write(data)
def scope(method="GET", path="/", headers=None, ext=None):
    s={"type":"http","method":method,"path":path,"root_path":"","query_string":b"","scheme":"http","server":("h",80),"headers":[(k.lower().encode("latin-1"),v.encode("latin-1")) for k,v in (headers or {}).items()]}
    if ext: s["extensions"]=ext
    return s
async def arun(app, sc):
    out=[]
    async def send(m): out.append(m)
    async def receive(): await asyncio.sleep(3600)
    await app(sc, receive, send); return out
def body_of(msgs):
    b=b""
    for m in msgs[1:]:
        if m["type"]=="http.response.body": b+=m.get("body",b"")
        else:
            fd=m["file"]; off=m.get("offset"); cnt=m.get("count")
            if off is not None: os.lseek(fd,off,0)
            b+= os.read(fd, cnt if cnt is not None else 10**9)
    return b
for hdr in [{}, {"range":"bytes=0-9"},{"range":"bytes=0-9,20-29"},{"range":"bytes=2000-"},{"range":"bytes=5-4"},{"range":"x"},{"range":"bytes=0-1023"},{"range":"bytes=0-15,16-31,1000-"}]:
    for cs in (16, 1024, 7):
        m=asyncio.run(arun(asgi.FileResponse(fp,chunk_size=cs), scope(headers=hdr)))
        h=dict(m[0].get("headers",[])); b=body_of(m)
        print("A",hdr,cs,m[0]["status"],h.get(b"content-length"),len(b), [k for k in h if k!=k.lower()], sum(1 for x in m[1:] if not x.get("more_body")), m[-1].get("more_body"))
m=asyncio.run(arun(asgi.FileResponse(fp,chunk_size=100), scope(headers={"range":"bytes=0-9,20-29"},ext={"http.response.zerocopysend":{}})))
print([ (x["type"],x.get("offset"),x.get("count"),x.get("more_body")) for x in m])
# non-ascii download name
for nm in ["中文.txt","a b.txt",'q"q.txt',"é.txt"]:
    try:
        m=asyncio.run(arun(asgi.FileResponse(fp,download_name=nm), scope()))
        print("A dn",nm,m[0]["status"],dict(m[0]["headers"]).get(b"content-disposition"))
    except Exception as e: print("A dn",nm,type(e).__name__,e)
    out=[]
    try:
        b=b"".join(wsgi.FileResponse(fp,download_name=nm)({"REQUEST_METHOD":"GET"}, lambda s,h,e=None: out.append((s,h))))
        cd=dict(out[0][1])["content-disposition"]; 
        try: cd.encode("latin-1"); ok=True
        except Exception: ok=False
        print("W dn",nm,out[0][0],cd,ok)
    except Exception as e: print("W dn",nm,type(e).__name__,e)
# empty file
open(d+"/e","wb").close()
for hdr in [{}, {"range":"bytes=0-"}]:
    m=asyncio.run(arun(asgi.FileResponse(d+"/e",chunk_size=4), scope(headers=hdr)))
    print("A empty",hdr,[ (x["type"],x.get("status"),x.get("body"),x.get("more_body")) for x in m])
    out=[]
    b=list(wsgi.FileResponse(d+"/e",chunk_size=4)({"REQUEST_METHOD":"GET",**({"HTTP_RANGE":hdr["range"]} if hdr else {})}, lambda s,h,e=None: out.append((s,h))))
    print("W empty",hdr,out[0][0],b)
