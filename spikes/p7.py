import asyncio, os, tempfile, io
from baize import asgi, wsgi
d=tempfile.mkdtemp(); open(d+"/e","wb").close(); open(d+"/f.txt","wb").write(b"hello world")
def env(method="GET", path="/", headers=None):
    e={"REQUEST_METHOD":method,"SCRIPT_NAME":"","PATH_INFO":path,"QUERY_STRING":"","SERVER_NAME":"h","SERVER_PORT":"80","wsgi.url_scheme":"http","wsgi.input":io.BytesIO(b"")}
    for k,v in (headers or {}).items(): e["HTTP_"+k.upper().replace("-","_")]=v
    return e
def wcall(app, e):
    out=[]
    def sr(s,h,ei=None): out.append((s,h))
    it=app(e,sr); body=[]
    try:
        for c in it: body.append(c)
    finally:
        if hasattr(it,"close"): it.close()
    return out, body
@wsgi.middleware
def ident(req, nxt): return nxt(req)
def t(label,f):
    try: print(label, f())
    except BaseException as e: print(label,"EXC",type(e).__name__,e)
t("W mw empty file", lambda: wcall(ident(wsgi.FileResponse(d+"/e")), env()))
def listapp(environ, sr):
    sr("200 OK",[("Content-Type","text/plain"),("Set-Cookie","a=1"),("Set-Cookie","b=2")]); return [b"hello"]
t("W mw list app", lambda: wcall(ident(listapp), env()))
t("W bare list app", lambda: wcall(listapp, env()))
def two(req):
    r=wsgi.PlainTextResponse("x"); r.set_cookie("a","1"); r.set_cookie("b","2"); return r
t("W mw cookies", lambda: wcall(ident(wsgi.request_response(two)), env())[0])
t("W mw 299", lambda: wcall(ident(wsgi.Response(299)), env())[0])
t("W mw HEAD file", lambda: wcall(ident(wsgi.FileResponse(d+"/f.txt")), env(method="HEAD")))
t("W bare HEAD file", lambda: wcall(wsgi.FileResponse(d+"/f.txt"), env(method="HEAD")))

def scope(method="GET", path="/", headers=None, ext=None):
    s={"type":"http","method":method,"path":path,"root_path":"","query_string":b"","scheme":"http","server":("h",80),"headers":[(k.lower().encode(),v.encode()) for k,v in (headers or {}).items()]}
    if ext: s["extensions"]=ext
    return s
async def arun(app, sc):
    out=[]
    async def send(m): out.append(m)
    async def receive(): await asyncio.sleep(3600)
    await app(sc, receive, send); return [(m["type"].split(".")[-1], m.get("status"), m.get("headers"), m.get("body"), m.get("more_body")) for m in out]
@asgi.middleware
async def aident(req, nxt): return await nxt(req)
t("A mw file zc", lambda: asyncio.run(arun(aident(asgi.FileResponse(d+"/f.txt")), scope(ext={"http.response.zerocopysend":{}}))))
t("A mw file", lambda: asyncio.run(arun(aident(asgi.FileResponse(d+"/f.txt")), scope())))
t("A bare file", lambda: asyncio.run(arun(asgi.FileResponse(d+"/f.txt"), scope())))
async def atwo(req):
    r=asgi.PlainTextResponse("x"); r.set_cookie("a","1"); r.set_cookie("b","2"); return r
t("A mw cookies", lambda: asyncio.run(arun(aident(asgi.request_response(atwo)), scope())))
# 304 differential
for mod,run_ in ((wsgi,None),(asgi,None)):
    pass
w=wcall(wsgi.Files(d), env(path="/f.txt"))
et=dict(w[0][0][1])["etag"]
print("W 304", wcall(wsgi.Files(d), env(path="/f.txt",headers={"if-none-match":et}))[0])
print("A 304", asyncio.run(arun(asgi.Files(d), scope(path="/f.txt",headers={"if-none-match":et}))))
