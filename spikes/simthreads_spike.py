import threading, random, sys, queue as _queue, time as _time, hashlib, concurrent.futures as cf
from concurrent.futures import thread as _cft

class SimKilled(BaseException): pass
class Deadlock(Exception): pass

class SThread:
    def __init__(self, sched, fn, name):
        self.sched=sched; self.fn=fn; self.name=name
        self.gate=threading.Semaphore(0); self.state="ready"  # ready|blocked|done
        self.pred=None; self.deadline=None; self.timed_out=False; self.exc=None
        self.t=threading.Thread(target=self._boot, daemon=True, name=name)
    def _boot(self):
        self.gate.acquire()
        _tls.cur=self
        sys.settrace(self.sched._tracer)
        try:
            if not self.sched.killing: self.fn()
        except SimKilled: pass
        except BaseException as e: self.exc=e
        finally:
            sys.settrace(None)
            self.state="done"; self.sched.main_gate.release()
_tls=threading.local()
def cur(): return getattr(_tls,"cur",None)

class Sched:
    def __init__(self, rng, trace_files=(), preempt_p=0.15):
        self.rng=rng; self.now=0.0; self.threads=[]; self.main_gate=threading.Semaphore(0)
        self.killing=False; self.trace=[]; self.trace_files=trace_files; self.preempt_p=preempt_p; self.switches=0
    def spawn(self, fn, name):
        th=SThread(self, fn, name); self.threads.append(th); th.t.start(); return th
    # called inside sim threads
    def _yield(self, th):
        self.main_gate.release(); th.gate.acquire()
        if self.killing: raise SimKilled()
    def preempt(self):
        th=cur()
        if th is None or self.killing: return
        th.state="ready"; self._yield(th)
    def block_until(self, pred, timeout=None, what=""):
        th=cur()
        if pred(): return True
        th.pred=pred; th.deadline=None if timeout is None else self.now+timeout; th.state="blocked"; th.what=what
        self._yield(th)
        ok=not th.timed_out; th.timed_out=False; th.pred=None; th.deadline=None
        return ok
    def sleep(self, d):
        self.block_until(lambda: False, d, "sleep")
    def _tracer(self, frame, event, arg):
        if frame.f_code.co_filename.endswith(self.trace_files): return self._ltracer
        return None
    def _ltracer(self, frame, event, arg):
        if event=="line" and not self.killing and self.rng.random()<self.preempt_p:
            self.trace.append(("pre",cur().name,frame.f_lineno)); self.preempt()
        return self._ltracer
    # main loop
    def run(self, max_steps=100000):
        steps=0
        while True:
            live=[t for t in self.threads if t.state!="done"]
            if not live: return "ok"
            runnable=[]
            for t in live:
                if t.state=="ready": runnable.append(t)
                elif t.pred(): runnable.append(t)
            if not runnable:
                dl=[t.deadline for t in live if t.deadline is not None]
                if not dl: return "deadlock"
                self.now=min(dl)
                for t in live:
                    if t.deadline is not None and t.deadline<=self.now: t.timed_out=True; runnable.append(t)
            t=runnable[self.rng.randrange(len(runnable))] if len(runnable)>1 else runnable[0]
            t.state="ready"; self.trace.append(("run",t.name,round(self.now,3)))
            self.switches+=1
            t.gate.release(); self.main_gate.acquire()
            steps+=1
            if steps>max_steps: return "steplimit"
    def kill_all(self):
        self.killing=True
        for t in self.threads:
            while t.state!="done":
                t.gate.release(); self.main_gate.acquire()
        for t in self.threads: t.t.join()

SCHED=None
class SimQueue(_queue.Queue):
    def __init__(self, maxsize=0):
        super().__init__(maxsize); self.items=[]
    def put(self, item, block=True, timeout=None):
        s=SCHED; s.preempt()
        if self.maxsize>0 and len(self.items)>=self.maxsize:
            if not block: raise _queue.Full
            if not s.block_until(lambda: len(self.items)<self.maxsize, timeout, "put"): raise _queue.Full
        self.items.append(item)
    def get(self, block=True, timeout=None):
        s=SCHED; s.preempt()
        if not self.items:
            if not block: raise _queue.Empty
            if not s.block_until(lambda: bool(self.items), timeout, "get"): raise _queue.Empty
        return self.items.pop(0)
    def get_nowait(self): return self.get(False)
    def put_nowait(self, i): return self.put(i, False)
    def empty(self): return not self.items
    def qsize(self): return len(self.items)
class SimFuture(cf.Future):
    def exception(self, timeout=None):
        if not SCHED.block_until(self.done, timeout, "fut.exception"): raise cf.TimeoutError()
        return super().exception(0)
    def result(self, timeout=None):
        if not SCHED.block_until(self.done, timeout, "fut.result"): raise cf.TimeoutError()
        return super().result(0)
class SimExecutor:
    def __init__(self): self.n=0
    def submit(self, fn, *a, **k):
        f=SimFuture(); self.n+=1
        def work():
            if not f.set_running_or_notify_cancel(): return
            try: f.set_result(fn(*a,**k))
            except SimKilled: raise
            except BaseException as e: f.set_exception(e)
        SCHED.spawn(work, f"relay{self.n}"); return f

def scenario(seed):
    global SCHED
    import baize.wsgi.responses as R
    rng=random.Random(seed)
    s=SCHED=Sched(rng, trace_files=("baize/wsgi/responses.py",))
    R.queue.Queue=SimQueue
    R.SendEventResponse.thread_pool=SimExecutor()
    n=rng.randint(0,4); delays=[rng.choice([0,0,0.5,1.0,2.0]) for _ in range(n)]; P=rng.choice([1.0,2.0])
    take=rng.choice([None,0,1,2,3]); cdel=rng.choice([0,0,0.5,1.5])
    out={"cleanup":0,"got":[],"closed_at":None}
    def gen():
        try:
            for i,d in enumerate(delays):
                if d: s.sleep(d)
                yield {"data":str(i)}
        finally: out["cleanup"]+=1
    def consumer():
        r=R.SendEventResponse(gen(), ping_interval=P)
        it=iter(r({"REQUEST_METHOD":"GET"}, lambda st,h,e=None: None))
        k=0
        try:
            for chunk in it:
                out["got"].append(chunk); k+=1
                if cdel: s.sleep(cdel)
                if take is not None and k>=take: break
        finally:
            out["close_start"]=s.now
            it.close(); out["closed_at"]=s.now
    s.spawn(consumer,"consumer")
    res=s.run()
    st=[(t.name,t.state,getattr(t,"what",None)) for t in s.threads]; snap=dict(out); snap["got"]=list(out["got"])
    s.kill_all()
    return res, (n,delays,P,take,cdel), snap, st, s.switches, s.trace

if __name__=="__main__":
    t0=_time.time(); N=1500; dead=0; sw=0; hs=set()
    for seed in range(N):
        a=scenario(seed); b=scenario(seed)
        assert repr(a)==repr(b), seed
        hs.add(hashlib.sha1(repr(a[5]).encode()).hexdigest())
        if a[0]!="ok":
            dead+=1
            if dead<=3: print(seed, a[0], a[1], a[2], a[3])
        sw+=a[4]
    dt=_time.time()-t0
    print("runs",2*N,"in",round(dt,2),"s ->",round(2*N/dt),"runs/s; deadlocks",dead,"of",N,"; avg switches",sw/N, "distinct traces", len(hs), "threads alive", threading.active_count())
