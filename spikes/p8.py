import os, tempfile, io
d=tempfile.mkdtemp(); p=d+"/a.txt"; open(p,"w").write("v1")
real=os.stat
meta={}
def fake(path, *a, **k):
    st=real(path,*a,**k)
    m=meta.get(os.fspath(path))
    if m is None: return st
    mt,ct=m
    l=list(st)  # 10 ints
    l[8]=int(mt); l[9]=int(ct)
    ext=(st.st_atime, mt, ct, st.st_atime_ns, int(mt*1e9), int(ct*1e9))
    d_={"st_atime":st.st_atime,"st_mtime":mt,"st_ctime":ct,"st_atime_ns":st.st_atime_ns,"st_mtime_ns":int(mt*1e9),"st_ctime_ns":int(ct*1e9),"st_blksize":st.st_blksize,"st_blocks":st.st_blocks,"st_rdev":st.st_rdev}
    return os.stat_result(tuple(l), d_)
os.stat=fake
meta[p]=(1000.2,1000.2)
s=os.stat(p); print(s.st_mtime, s.st_ctime, s.st_size, s.st_mtime_ns, s.st_mode)
from baize import wsgi
def env(path, headers=None):
    e={"REQUEST_METHOD":"GET","SCRIPT_NAME":"","PATH_INFO":path,"QUERY_STRING":"","SERVER_NAME":"h","SERVER_PORT":"80","wsgi.url_scheme":"http","wsgi.input":io.BytesIO(b"")}
    for k,v in (headers or {}).items(): e["HTTP_"+k.upper().replace("-","_")]=v
    return e
def call(path, headers=None):
    out=[]
    b=b"".join(wsgi.Files(d)(env(path,headers), lambda s,h,e=None: out.append((s,dict(h)))))
    return out[0][0], out[0][1].get("etag"), out[0][1].get("last-modified"), b
r1=call("/a.txt"); print(r1)
open(p,"w").write("v2-longer"); meta[p]=(1000.7,1000.7)
print("LM only  ", call("/a.txt",{"if-modified-since":r1[2]}))
print("both     ", call("/a.txt",{"if-modified-since":r1[2],"if-none-match":r1[1]}))
print("etag only", call("/a.txt",{"if-none-match":r1[1]}))
# future mtime skew
meta[p]=(5000.0,1001.0); r2=call("/a.txt"); print(r2)
open(p,"w").write("v3"); meta[p]=(1010.0,1010.0)
print("skew both", call("/a.txt",{"if-modified-since":r2[2],"if-none-match":r2[1]}))
print("weak list", call("/a.txt",{"if-none-match":'"zzz", W/'+call("/a.txt")[1]}), call("/a.txt",{"if-none-match":'W/'+call("/a.txt")[1]+', "zzz"'}))
