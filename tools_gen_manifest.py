#!/venv/bin/python
"""Regenerates MANIFEST.json from the table below (keeps it valid at all times)."""
import json, os, sys
HERE = os.path.dirname(os.path.abspath(__file__))
CLAIMED = {}
exec(open(os.path.join(HERE, "manifest_table.py")).read())
checks = []
for pid, c in sorted(CLAIMED.items()):
    checks.append({
        "property_id": pid,
        "quick_cmd": "./check %s --tier quick" % pid,
        "thorough_cmd": "./check %s --tier thorough" % pid,
        "evidence_file": "evidence/%s.json" % pid,
        "replay_cmd_template": "./check %s --replay {path}" % pid,
        "engine": c["engine"],
        "level_claimed": {"category": c["level"], "text": c["text"], "design_ref": c["design_ref"]},
        "level_note": c["note"],
        "technique": c["technique"],
    })
m = {
    "version": 1,
    "setup_cmd": "/venv/bin/python -B -c \"import sys; sys.path.insert(0, '/repo'); import baize, asyncio; print('baize', baize.__file__)\"",
    "hooks": {"guard": "BAIZE_VERIF", "enable": "no hook is needed: every seam (asyncio loop, queue/executor/time, os.stat, wsgi.input, ASGI receive/send) is replaced from outside by the simulator; checks import baize from /repo's working tree",
              "baseline_off_cmd": "cd /repo && /venv/bin/python -m pytest -ra -q -p no:cacheprovider --timeout=900 --continue-on-collection-errors",
              "source_commits": [], "add_only": True},
    "engines": ENGINES,
    "checks": checks,
    "not_applicable": NOT_APPLICABLE,
    "notes": NOTES,
}
json.dump(m, open(os.path.join(HERE, "MANIFEST.json"), "w"), indent=1)
print("wrote MANIFEST.json with %d checks, %d not applicable" % (len(checks), len(NOT_APPLICABLE)))
